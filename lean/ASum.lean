import Mathlib.Algebra.BigOperators.Group.Finset.Basic
import Mathlib.Algebra.Order.BigOperators.Group.Finset

/-!
A-SUM (theory/mapsum.smt2): a duplicate-free list of keys of a finite map with non-negative values sums to at most the
sum over the whole map. `s` is the key set of the map, `f` its value function, `l` the list.
-/
open BigOperators

theorem list_sum_le_map_sum {α : Type} [DecidableEq α] (l : List α) (s : Finset α) (f : α → ℤ)
    (hnd : l.Nodup) (hsub : ∀ x ∈ l, x ∈ s) (hnn : ∀ x ∈ s, 0 ≤ f x) :
    (l.map f).sum ≤ ∑ x ∈ s, f x := by
  have h1 : (l.map f).sum = ∑ x ∈ l.toFinset, f x := by
    rw [List.sum_toFinset f hnd]
  rw [h1]
  apply Finset.sum_le_sum_of_subset_of_nonneg
  · intro x hx
    exact hsub x (List.mem_toFinset.mp hx)
  · intro x hx _
    exact hnn x hx

/-- the update equation that characterises `msum2`: assigning `m[k] := v` changes the sum by `v - old` -/
theorem map_sum_update {α : Type} [DecidableEq α] (s : Finset α) (f : α → ℤ) (k : α) (v : ℤ) :
    ∑ x ∈ insert k s, (Function.update f k v) x = (∑ x ∈ s, f x) - (if k ∈ s then f k else 0) + v := by
  by_cases hk : k ∈ s
  · have : insert k s = s := Finset.insert_eq_of_mem hk
    rw [this, if_pos hk]
    rw [← Finset.add_sum_erase s _ hk, ← Finset.add_sum_erase s f hk]
    have : ∑ x ∈ s.erase k, Function.update f k v x = ∑ x ∈ s.erase k, f x := by
      apply Finset.sum_congr rfl
      intro x hx
      exact Function.update_of_ne (Finset.ne_of_mem_erase hx) _ _
    rw [this, Function.update_self]
    omega
  · rw [if_neg hk, Finset.sum_insert hk, Function.update_self]
    have : ∑ x ∈ s, Function.update f k v x = ∑ x ∈ s, f x := by
      apply Finset.sum_congr rfl
      intro x hx
      have : x ≠ k := fun h => hk (h ▸ hx)
      exact Function.update_of_ne this _ _
    rw [this]
    omega
