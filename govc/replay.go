package main

import (
	"encoding/json"
	"fmt"
	"go/types"
	"os"
	"os/exec"
	"path/filepath"
	"regexp"
	"strconv"
	"strings"

	"golang.org/x/tools/go/ssa"
)

// Generic replay: for functions whose parameters and results are plain data
// (integers, booleans, strings, repository structs of those), the solver's
// model is turned into a Go test that calls the *real* function (injected
// with `go test -overlay`, nothing is written into the repository) and the
// failed postcondition is re-evaluated on the concrete inputs and the real
// outputs by the solver (the oracle is the contract itself).

type ReplayParam struct {
	Name   string
	Const  string // SMT constant holding the (entry) value
	RpName string // constant used in the closed replay formula
	Sort   string
	GoType types.Type
	IsPtr  bool
}

type ReplayInfo struct {
	OK       bool
	Why      string
	PkgPath  string
	PkgName  string
	FuncExpr string // how to call it: "GetMintForBlock" or "(%s).Method" with receiver first
	IsMethod bool
	Params   []ReplayParam
	Results  []ReplayParam
	Decls    string            // SMT declarations (sorts + theory) for the closed formula
	Formulas map[string]string // ensures label -> closed formula over rp_* constants
	Requires string
}

func simpleData(t types.Type, depth int) bool {
	if depth > 2 {
		return false
	}
	switch u := t.Underlying().(type) {
	case *types.Basic:
		return u.Info()&(types.IsInteger|types.IsBoolean|types.IsString) != 0
	case *types.Struct:
		n, ok := t.(*types.Named)
		if !ok || !isRepoPkg(n.Obj().Pkg()) {
			return false
		}
		return true // unsupported fields are left at their zero value
	case *types.Pointer:
		if _, ok := u.Elem().Underlying().(*types.Struct); ok {
			return simpleData(u.Elem(), depth+1)
		}
	}
	return false
}

func (g *Gen) buildReplay(fn *ssa.Function, ct *Contract, args []Val) *ReplayInfo {
	ri := &ReplayInfo{Formulas: map[string]string{}}
	if fn.Pkg == nil || len(fn.FreeVars) > 0 {
		ri.Why = "closure or synthetic function"
		return ri
	}
	ri.PkgPath = fn.Pkg.Pkg.Path()
	ri.PkgName = fn.Pkg.Pkg.Name()
	for _, p := range fn.Params {
		if !simpleData(p.Type(), 0) {
			ri.Why = fmt.Sprintf("parameter %s of type %s is not plain data", p.Name(), p.Type())
			return ri
		}
	}
	res := fn.Signature.Results()
	for i := 0; i < res.Len(); i++ {
		t := res.At(i).Type()
		if b, ok := t.Underlying().(*types.Basic); ok && b.Info()&(types.IsInteger|types.IsBoolean|types.IsString) != 0 {
			continue
		}
		if g.sorts.sortOf(t) == "Err" {
			continue
		}
		ri.Why = fmt.Sprintf("result %d of type %s is not plain data", i, t)
		return ri
	}
	mark := len(g.buf)
	defer func() {
		if r := recover(); r != nil {
			if ee, ok := r.(engineError); ok {
				ri.OK = false
				ri.Why = "postcondition not expressible over inputs and outputs only: " + ee.msg
				g.buf = g.buf[:mark]
				return
			}
			panic(r)
		}
	}()
	st := &State{cells: map[*Cell]Val{}, heaps: map[string]string{}}
	env := g.newEnv(st, st)
	var decl strings.Builder
	for i, p := range fn.Params {
		a := args[i]
		rp := ReplayParam{Name: p.Name(), GoType: p.Type()}
		if a.Ptr != nil && a.Ptr.Cell != nil {
			rp.IsPtr = true
			ev := g.entry.cells[a.Ptr.Cell]
			rp.Const, rp.Sort = ev.Term, ev.Sort
			rp.RpName = "rp_" + mangle(p.Name())
			c := g.newCell("rp_"+p.Name(), ev.Sort, a.Ptr.Cell.goT)
			st.cells[c] = Val{Sort: ev.Sort, Term: rp.RpName, GoT: a.Ptr.Cell.goT}
			env.vars[p.Name()] = Val{Ptr: &Addr{Cell: c}, GoT: p.Type()}
		} else {
			rp.Const, rp.Sort = a.Term, a.Sort
			rp.RpName = "rp_" + mangle(p.Name())
			env.vars[p.Name()] = Val{Sort: a.Sort, Term: rp.RpName, GoT: p.Type()}
		}
		env.vars[fmt.Sprintf("arg%d", i)] = env.vars[p.Name()]
		fmt.Fprintf(&decl, "(declare-const %s %s)\n", rp.RpName, rp.Sort)
		ri.Params = append(ri.Params, rp)
	}
	if fn.Signature.Recv() != nil && len(fn.Params) > 0 {
		env.vars["recv"] = env.vars[fn.Params[0].Name()]
		ri.IsMethod = true
	}
	var rv []Val
	for i := 0; i < res.Len(); i++ {
		s := g.sorts.sortOf(res.At(i).Type())
		n := fmt.Sprintf("rp_result%d", i)
		fmt.Fprintf(&decl, "(declare-const %s %s)\n", n, s)
		rv = append(rv, Val{Sort: s, Term: n, GoT: res.At(i).Type()})
		ri.Results = append(ri.Results, ReplayParam{Name: n, RpName: n, Sort: s, GoType: res.At(i).Type()})
	}
	var resVal Val
	if len(rv) == 1 {
		resVal = rv[0]
	} else {
		resVal = Val{Tuple: rv}
	}
	bindResults(env, fn.Signature, resVal)
	for _, l := range ct.Lets {
		env.lets[l.Name] = l.Expr
	}
	var reqs []string
	for _, r := range ct.Requires {
		reqs = append(reqs, env.trBool(r.Expr))
	}
	ri.Requires = and(reqs...)
	for _, e := range ct.Ensures {
		ri.Formulas[e.Label] = env.trBool(e.Expr)
	}
	if len(g.buf) != mark || len(st.heaps) > 0 {
		// the postcondition mentions state: not a closed formula over inputs/outputs
		g.buf = g.buf[:mark]
		ri.Why = "postcondition mentions heap or world state"
		return ri
	}
	ri.Decls = decl.String()
	ri.FuncExpr = fn.Name()
	ri.OK = true
	return ri
}

// ---------------------------------------------------------------------------
// model parsing

func parseModel(out string) map[string]*Sexp {
	m := map[string]*Sexp{}
	i := strings.Index(out, "(")
	if i < 0 {
		return m
	}
	sx, _, err := parseSexp(out, i)
	if err != nil || sx == nil {
		return m
	}
	for _, d := range sx.List {
		if d.IsL && len(d.List) == 5 && d.List[0].Atom == "define-fun" && d.List[2].IsL && len(d.List[2].List) == 0 {
			m[d.List[1].Atom] = d.List[4]
		}
	}
	return m
}

func sexpInt(s *Sexp) (string, bool) {
	if !s.IsL {
		if _, err := strconv.ParseInt(s.Atom, 10, 64); err == nil {
			return s.Atom, true
		}
		if regexp.MustCompile(`^[0-9]+$`).MatchString(s.Atom) {
			return s.Atom, true
		}
		return "", false
	}
	if len(s.List) == 2 && s.List[0].Atom == "-" {
		if v, ok := sexpInt(s.List[1]); ok {
			return "-" + v, true
		}
	}
	return "", false
}

type litGen struct {
	g       *Gen
	strs    map[string]string
	pkg     *types.Package
	partial []string
}

func (lg *litGen) qual(p *types.Package) string {
	if p == lg.pkg {
		return ""
	}
	return p.Name() + "."
}

// goLiteral renders a model value of Go type t as Go source.
func (lg *litGen) goLiteral(v *Sexp, t types.Type, imports map[string]string) (string, bool) {
	switch u := t.Underlying().(type) {
	case *types.Basic:
		switch {
		case u.Info()&types.IsInteger != 0:
			n, ok := sexpInt(v)
			if !ok {
				return "", false
			}
			return fmt.Sprintf("%s(%s)", types.TypeString(t, func(p *types.Package) string { return lg.qualImport(p, imports) }), n), true
		case u.Info()&types.IsBoolean != 0:
			return v.Atom, v.Atom == "true" || v.Atom == "false"
		case u.Info()&types.IsString != 0:
			if strings.HasPrefix(v.Atom, "\"") {
				return strconv.Quote(smtUnquote(v.Atom)), true
			}
			if s, ok := lg.strs[v.Atom]; ok {
				return strconv.Quote(s), true
			}
			s := fmt.Sprintf("s%d", len(lg.strs))
			if v.Atom == "str_empty" {
				s = ""
			}
			lg.strs[v.Atom] = s
			return strconv.Quote(s), true
		}
	case *types.Pointer:
		inner, ok := lg.goLiteral(v, u.Elem(), imports)
		if !ok {
			return "", false
		}
		return "&" + inner, true
	case *types.Struct:
		srt := lg.g.sorts.sortOf(t)
		info := lg.g.sorts.structs[srt]
		if info == nil || !v.IsL || len(v.List) != len(info.Fields)+1 {
			if info != nil && len(info.Fields) == 0 {
				return types.TypeString(t, func(p *types.Package) string { return lg.qualImport(p, imports) }) + "{}", true
			}
			return "", false
		}
		var parts []string
		for i, f := range info.Fields {
			lit, ok := lg.goLiteral(v.List[i+1], f.GoType, imports)
			if !ok {
				lg.partial = append(lg.partial, srt+"."+f.Name)
				continue
			}
			parts = append(parts, f.Name+": "+lit)
		}
		return types.TypeString(t, func(p *types.Package) string { return lg.qualImport(p, imports) }) + "{" + strings.Join(parts, ", ") + "}", true
	}
	return "", false
}

func (lg *litGen) qualImport(p *types.Package, imports map[string]string) string {
	if p == lg.pkg {
		return ""
	}
	alias := "rp" + mangle(p.Name())
	imports[p.Path()] = alias
	return alias
}

func smtUnquote(s string) string {
	s = strings.TrimPrefix(s, "\"")
	s = strings.TrimSuffix(s, "\"")
	s = strings.ReplaceAll(s, "\"\"", "\"")
	re := regexp.MustCompile(`\\u\{([0-9a-fA-F]+)\}`)
	return re.ReplaceAllStringFunc(s, func(m string) string {
		h := re.FindStringSubmatch(m)[1]
		n, _ := strconv.ParseInt(h, 16, 32)
		return string(rune(n))
	})
}

type ReplayOutcome struct {
	Attempted bool
	Confirmed bool
	Detail    string
	Inputs    map[string]string
	Outputs   []string
	Panic     string
	Cmd       string
}

// genericReplay runs the real function on the model's inputs.
func (w *Workspace) genericReplay(r *FuncResult, o *Obligation, scratch string) *ReplayOutcome {
	out := &ReplayOutcome{Inputs: map[string]string{}}
	ri := r.Replay
	if ri == nil || !ri.OK {
		if ri != nil {
			out.Detail = "no generic replay: " + ri.Why
		}
		return out
	}
	model := parseModel(o.Output)
	if len(model) == 0 {
		out.Detail = "solver gave no model"
		return out
	}
	fn := w.funcs[r.MapKey]
	lg := &litGen{g: r.gen, strs: map[string]string{}, pkg: fn.Pkg.Pkg}
	imports := map[string]string{}
	var argLits []string
	var smtVals []string
	for _, p := range ri.Params {
		mv, ok := model[p.Const]
		if !ok {
			// constant not constrained by the model: any value works; use zero
			z := r.gen.sorts.zero(p.Sort, nil)
			if z == "" {
				out.Detail = "model does not mention " + p.Const
				return out
			}
			sx, _, _ := parseSexp(z, 0)
			mv = sx
		}
		t := p.GoType
		lit, ok := lg.goLiteral(mv, t, imports)
		if !ok {
			out.Detail = fmt.Sprintf("cannot render model value %s of %s as Go", mv.String(), p.Name)
			return out
		}
		argLits = append(argLits, lit)
		out.Inputs[p.Name] = lit
		smtVals = append(smtVals, fmt.Sprintf("(assert (= %s %s))", p.RpName, mv.String()))
	}
	call := ""
	if ri.IsMethod {
		call = fmt.Sprintf("(%s).%s(%s)", argLits[0], ri.FuncExpr, strings.Join(argLits[1:], ", "))
	} else {
		call = fmt.Sprintf("%s(%s)", ri.FuncExpr, strings.Join(argLits, ", "))
	}
	var src strings.Builder
	fmt.Fprintf(&src, "package %s\n\nimport (\n\t\"fmt\"\n\t\"testing\"\n", ri.PkgName)
	for p, a := range imports {
		fmt.Fprintf(&src, "\t%s %q\n", a, p)
	}
	src.WriteString(")\n\nfunc TestVerifReplay(t *testing.T) {\n\tdefer func() {\n\t\tif r := recover(); r != nil {\n\t\t\tfmt.Printf(\"REPLAY-PANIC: %v\\n\", r)\n\t\t}\n\t}()\n")
	nres := len(ri.Results)
	if nres == 0 {
		fmt.Fprintf(&src, "\t%s\n\tfmt.Println(\"REPLAY-DONE\")\n", call)
	} else {
		var names []string
		for i := 0; i < nres; i++ {
			names = append(names, fmt.Sprintf("r%d", i))
		}
		fmt.Fprintf(&src, "\t%s := %s\n", strings.Join(names, ", "), call)
		for i, rp := range ri.Results {
			if rp.Sort == "Err" {
				fmt.Fprintf(&src, "\tfmt.Printf(\"REPLAY-RESULT %d err %%v\\n\", r%d != nil)\n", i, i)
			} else {
				fmt.Fprintf(&src, "\tfmt.Printf(\"REPLAY-RESULT %d val %%#v\\n\", r%d)\n", i, i)
			}
		}
		src.WriteString("\tfmt.Println(\"REPLAY-DONE\")\n")
	}
	src.WriteString("}\n")
	os.MkdirAll(scratch, 0o755)
	testFile := filepath.Join(scratch, "zz_verif_replay_test.go")
	os.WriteFile(testFile, []byte(src.String()), 0o644)
	rel := strings.TrimPrefix(ri.PkgPath, modPath)
	target := filepath.Join(w.repo, rel, "zz_verif_replay_test.go")
	ov, _ := json.Marshal(map[string]interface{}{"Replace": map[string]string{target: testFile}})
	ovFile := filepath.Join(scratch, "overlay.json")
	os.WriteFile(ovFile, ov, 0o644)
	cmd := exec.Command("go", "test", "-overlay", ovFile, "-vet=off", "-timeout", "60s", "-count=1", "-v", "-run", "TestVerifReplay", "."+rel)
	cmd.Dir = w.repo
	cmd.Env = append(os.Environ(), "GOFLAGS=-mod=mod", "GOPROXY=off", "GOSUMDB=off", "GOTOOLCHAIN=local")
	b, _ := cmd.CombinedOutput()
	out.Attempted = true
	out.Cmd = strings.Join(cmd.Args, " ")
	txt := string(b)
	var resultAsserts []string
	done := false
	for _, l := range strings.Split(txt, "\n") {
		l = strings.TrimSpace(l)
		switch {
		case strings.HasPrefix(l, "REPLAY-PANIC: "):
			out.Panic = strings.TrimPrefix(l, "REPLAY-PANIC: ")
		case l == "REPLAY-DONE":
			done = true
		case strings.HasPrefix(l, "REPLAY-RESULT "):
			f := strings.SplitN(l, " ", 4)
			if len(f) < 4 {
				continue
			}
			idx, _ := strconv.Atoi(f[1])
			out.Outputs = append(out.Outputs, f[3])
			rp := ri.Results[idx]
			switch {
			case f[2] == "err":
				if f[3] == "true" {
					resultAsserts = append(resultAsserts, fmt.Sprintf("(assert (not (= %s Err_nil)))", rp.RpName))
				} else {
					resultAsserts = append(resultAsserts, fmt.Sprintf("(assert (= %s Err_nil))", rp.RpName))
				}
			case rp.Sort == "Int":
				n := f[3]
				if strings.HasPrefix(n, "-") {
					n = "(- " + n[1:] + ")"
				}
				resultAsserts = append(resultAsserts, fmt.Sprintf("(assert (= %s %s))", rp.RpName, n))
			case rp.Sort == "Bool":
				resultAsserts = append(resultAsserts, fmt.Sprintf("(assert (= %s %s))", rp.RpName, f[3]))
			default:
				// strings: only usable in concrete mode
				if o.Concrete {
					s, err := strconv.Unquote(f[3])
					if err == nil {
						old := stringsConcrete
						stringsConcrete = true
						resultAsserts = append(resultAsserts, fmt.Sprintf("(assert (= %s %s))", rp.RpName, strLit(s)))
						stringsConcrete = old
					}
				}
			}
		}
	}
	if o.Kind == "nopanic" || o.Kind == "overflow" {
		if out.Panic != "" {
			out.Confirmed = true
			out.Detail = "the real function panics on the model's input: " + out.Panic
		} else {
			out.Detail = "the real function did not panic on the model's input"
		}
		return out
	}
	if out.Panic != "" {
		out.Detail = "the real function panicked: " + out.Panic
		return out
	}
	if !done {
		out.Detail = "replay test did not complete: " + truncate(txt, 1500)
		return out
	}
	formula, ok := ri.Formulas[o.Label]
	if !ok {
		out.Detail = "no closed formula for this obligation"
		return out
	}
	// evaluate the postcondition on the concrete inputs/outputs
	var q strings.Builder
	q.WriteString("(set-option :produce-models true)\n(set-logic ALL)\n")
	q.WriteString(r.StaticPrelude)
	q.WriteString(monoOptions(ri.Decls))
	for _, a := range smtVals {
		q.WriteString(a + "\n")
	}
	for _, a := range resultAsserts {
		q.WriteString(a + "\n")
	}
	fmt.Fprintf(&q, "(assert (not %s))\n(check-sat)\n", monoOptions(formula))
	qf := filepath.Join(scratch, "replay_eval.smt2")
	os.WriteFile(qf, []byte(q.String()), 0o644)
	v, _, sout, _ := race(qf, 20, o.Concrete)
	switch v {
	case "sat":
		out.Confirmed = true
		out.Detail = "postcondition is false on the real function's output for the model's input"
	case "unsat":
		out.Detail = "postcondition holds on the real output (the model lives in an abstraction)"
	default:
		out.Detail = "could not evaluate the postcondition on the real output: " + truncate(sout, 300)
	}
	return out
}

// ---------------------------------------------------------------------------
// scenario replay: for obligations on state-changing handlers a hand-written
// scenario (kept in /verif/replay, keyed by obligation name) drives the real
// keeper through the sequence the obligation describes.

type Scenario struct {
	Pkg  string `json:"pkg"`
	File string `json:"file"`
	Test string `json:"test"`
}

var obligationSuffixRe = regexp.MustCompile(`(@return\d+|~\d+)+$`)

func loadScenarios(verif string) map[string]Scenario {
	out := map[string]Scenario{}
	b, err := os.ReadFile(filepath.Join(verif, "replay", "scenarios.json"))
	if err != nil {
		return out
	}
	json.Unmarshal(b, &out)
	return out
}

func (w *Workspace) scenarioReplay(o *Obligation, scratch string) *ReplayOutcome {
	if strings.HasSuffix(o.Name, "!outside_known") {
		return nil // the scenario of the base obligation is the known case itself
	}
	scs := loadScenarios(w.verif)
	sc, ok := scs[o.Name]
	if !ok {
		// scenarios are registered per clause: the per-return-site and duplicate-name suffixes do not matter
		sc, ok = scs[obligationSuffixRe.ReplaceAllString(o.Name, "")]
	}
	if !ok {
		return nil
	}
	out := &ReplayOutcome{Inputs: map[string]string{"scenario": sc.Test}}
	os.MkdirAll(scratch, 0o755)
	target := filepath.Join(w.repo, sc.Pkg, "zz_verif_scenarios_test.go")
	ov, _ := json.Marshal(map[string]interface{}{"Replace": map[string]string{target: filepath.Join(w.verif, "replay", sc.File)}})
	ovFile := filepath.Join(scratch, "overlay_scn.json")
	os.WriteFile(ovFile, ov, 0o644)
	cmd := exec.Command("go", "test", "-overlay", ovFile, "-vet=off", "-timeout", "120s", "-count=1", "-v", "-run", "^"+sc.Test+"$", "./"+sc.Pkg)
	cmd.Dir = w.repo
	cmd.Env = append(os.Environ(), "GOFLAGS=-mod=mod", "GOPROXY=off", "GOSUMDB=off", "GOTOOLCHAIN=local")
	b, _ := cmd.CombinedOutput()
	out.Attempted = true
	out.Cmd = strings.Join(cmd.Args, " ")
	for _, l := range strings.Split(string(b), "\n") {
		l = strings.TrimSpace(l)
		switch {
		case strings.HasPrefix(l, "SCENARIO-VIOLATION"):
			out.Confirmed = true
			out.Detail = l
			out.Outputs = append(out.Outputs, l)
		case strings.HasPrefix(l, "SCENARIO-OK"), strings.HasPrefix(l, "SCENARIO-ERROR"):
			out.Outputs = append(out.Outputs, l)
			if out.Detail == "" {
				out.Detail = l
			}
		}
	}
	if len(out.Outputs) == 0 {
		out.Detail = "scenario test produced no verdict: " + truncate(string(b), 1500)
	}
	return out
}
