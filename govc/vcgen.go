package main

import (
	"fmt"
	"go/constant"
	"go/token"
	"go/types"
	"os"
	"runtime/debug"
	"sort"
	"strings"

	"golang.org/x/tools/go/ssa"
)

// ---------------------------------------------------------------------------
// values, addresses, state

type Val struct {
	Sort    string
	Term    string
	Ptr     *Addr
	Tuple   []Val
	Clo     *Closure
	Fn      *ssa.Function
	GoT     types.Type
	NilFlag string // for static pointers that may be nil: SMT Bool "is nil" ("" = never nil)
	Elems   []Val  // statically known elements (slices over local arrays: variadic arguments, composite literals)
	CoinsOf string // a []Coin obtained by converting this Coins value (coins... arguments)
}

type Closure struct {
	Fn       *ssa.Function
	Bindings []Val
}

type Cell struct {
	id   int
	name string
	sort string
	goT  types.Type
}

// Addr is a static description of a memory location.
type Addr struct {
	Cell      *Cell  // a local/param/global cell, or
	Heap      string // element of an array heap: Heap[Loc][Idx], or
	Loc       string
	Idx       string
	Base      bool   // address of the whole array Heap[Loc] (pointer to array)
	N         int64  // array length for Base
	PHeap     string // element of a pointer heap: PHeap[PLoc]
	PLoc      string
	SliceSort string // for slice elements: the slice value and the index as written (reads use sget_<sort>)
	SliceTerm string
	RawIdx    string
	Path      []pathStep
}

type pathStep struct {
	sort string // struct sort
	idx  int
}

type State struct {
	cells map[*Cell]Val
	heaps map[string]string
}

func (s *State) clone() *State {
	n := &State{cells: make(map[*Cell]Val, len(s.cells)), heaps: make(map[string]string, len(s.heaps))}
	for k, v := range s.cells {
		n.cells[k] = v
	}
	for k, v := range s.heaps {
		n.heaps[k] = v
	}
	return n
}

// ---------------------------------------------------------------------------
// obligations

type Obligation struct {
	Name     string
	Kind     string // ensures | requires(call) | invariant | nopanic | overflow | lemma | cover | canary
	Label    string
	Props    []string
	Func     string
	Guard    string
	Goal     string
	GoalSrc  string
	Pos      string
	Bounded  int
	Concrete bool
	// filled by the solver
	Verdict   string // unsat | sat | unknown | error
	Solver    string
	Time      float64
	Model     string
	Output    string
	File      string
	ExpectSat bool // cover / canary: expected to be satisfiable
	BufLen    int  // number of body lines emitted before this obligation (later assumptions are not used)
	Ground    bool // quantified assumptions are dropped from the query (fewer assumptions: still sound)
}

// ---------------------------------------------------------------------------
// generator

type Gen struct {
	w          *Workspace
	sorts      *Sorts
	top        *ssa.Function
	contract   *Contract
	buf        []string
	obls       []*Obligation
	ctr        int
	declared   map[string]bool
	trusted    map[string]bool
	unmod      map[string]bool
	assumes    map[string]bool
	inlined    map[string]bool
	cellCtr    int
	globals    map[*ssa.Global]*Cell
	cellGlobal map[*Cell]*ssa.Global
	gocallFns  map[string][2]string // helpers turned into SMT functions (gocall)
	kvIters    map[string]*kvIter   // store iterators by their enumeration function
	relied     map[string]bool      // repository contracts and lemmas used by this function\'s proof
	freshMaps  map[string]bool      // map locations made by the function and not written since (syntactic)
	preTheory  []string             // declarations that theory modules may refer to (emitted before the theory text)
	renames    map[string]string    // recorded local name -> current local name (source-order alignment, rename.go)
	escaped    map[*Cell][2]string  // locals moved to the pointer heap: heap name, location
	entry      *State
	concrete   bool
	uses       map[string]bool
	stack      []*ssa.Function
	canaryN    int
	notes      []string
	ufDecl     map[string]string
	replay     *ReplayInfo
	arrElems   map[string]map[string]Val // local array location -> constant index -> stored value
	worldSeen  map[string]bool
	topFrame   *Frame
	resultMode bool             // values being introduced are results of a callee (may be freshly allocated)
	allocBound string           // when non-empty: slices/maps of the values being introduced were allocated at or before this counter value
	hashState  map[string]*Cell // sha256 objects (by their interface term) -> cell holding the bytes written so far
}

type engineError struct{ msg string }

func (e engineError) Error() string { return e.msg }

func (g *Gen) fail(format string, args ...interface{}) {
	if os.Getenv("GOVC_TRACE") != "" {
		debug.PrintStack()
	}
	panic(engineError{fmt.Sprintf(format, args...)})
}

func (g *Gen) emit(s string) { g.buf = append(g.buf, s) }

func (g *Gen) fresh(prefix, sortName string) string {
	g.ctr++
	n := fmt.Sprintf("%s_%d", mangle(prefix), g.ctr)
	g.declare(n, sortName)
	return n
}

func (g *Gen) declare(n, sortName string) {
	if g.declared[n] {
		return
	}
	g.declared[n] = true
	g.emit(fmt.Sprintf("(declare-const %s %s)", n, sortName))
}

func (g *Gen) def(prefix, sortName, term string) string {
	if isAtomic(term) {
		return term
	}
	n := g.fresh(prefix, sortName)
	g.emit(fmt.Sprintf("(assert (= %s %s))", n, term))
	return n
}

func (g *Gen) assume(term string) {
	if term == "true" {
		return
	}
	g.emit(fmt.Sprintf("(assert %s)", term))
}

func isAtomic(t string) bool {
	return !strings.ContainsAny(t, " (")
}

func and(ts ...string) string {
	var out []string
	for _, t := range ts {
		if t == "true" || t == "" {
			continue
		}
		if t == "false" {
			return "false"
		}
		out = append(out, t)
	}
	switch len(out) {
	case 0:
		return "true"
	case 1:
		return out[0]
	}
	return "(and " + strings.Join(out, " ") + ")"
}

func or(ts ...string) string {
	var out []string
	for _, t := range ts {
		if t == "false" || t == "" {
			continue
		}
		if t == "true" {
			return "true"
		}
		out = append(out, t)
	}
	switch len(out) {
	case 0:
		return "false"
	case 1:
		return out[0]
	}
	return "(or " + strings.Join(out, " ") + ")"
}

func not(t string) string {
	switch t {
	case "true":
		return "false"
	case "false":
		return "true"
	}
	if strings.HasPrefix(t, "(not ") && strings.HasSuffix(t, ")") {
		inner := t[5 : len(t)-1]
		if balanced(inner) {
			return inner
		}
	}
	return "(not " + t + ")"
}

func balanced(s string) bool {
	d := 0
	for i, c := range s {
		if c == '(' {
			d++
		} else if c == ')' {
			d--
			if d == 0 && i != len(s)-1 {
				return false
			}
			if d < 0 {
				return false
			}
		}
	}
	return d == 0
}

func implies(a, b string) string {
	if a == "true" {
		return b
	}
	if a == "false" || b == "true" {
		return "true"
	}
	return "(=> " + a + " " + b + ")"
}

func intLit(n int64) string {
	if n < 0 {
		return fmt.Sprintf("(- %d)", -n)
	}
	return fmt.Sprintf("%d", n)
}

func (g *Gen) oblige(kind, label string, props []string, fn *ssa.Function, guard, goal, src string, pos token.Pos) *Obligation {
	fk := g.funcKey(g.top)
	if g.contract != nil && g.contract.View != "" && g.top != nil {
		fk += "@" + g.contract.View
	}
	name := fmt.Sprintf("%s#%s:%s", fk, kind, label)
	// unique names
	base := name
	for i := 2; ; i++ {
		dup := false
		for _, o := range g.obls {
			if o.Name == name {
				dup = true
				break
			}
		}
		if !dup {
			break
		}
		name = fmt.Sprintf("%s~%d", base, i)
	}
	o := &Obligation{Name: name, Kind: kind, Label: label, Props: props, Func: fk, Guard: guard, Goal: goal, GoalSrc: src, Concrete: g.concrete, BufLen: len(g.buf)}
	if pos.IsValid() {
		p := g.w.prog.Fset.Position(pos)
		o.Pos = fmt.Sprintf("%s:%d", strings.TrimPrefix(p.Filename, "/repo/"), p.Line)
	}
	if g.contract != nil && g.contract.Bounded > 0 {
		o.Bounded = g.contract.Bounded
	}
	g.obls = append(g.obls, o)
	return o
}

func (g *Gen) funcKey(fn *ssa.Function) string {
	if fn == nil {
		return "lemma"
	}
	pk := ""
	if fn.Pkg != nil {
		pk = strings.TrimPrefix(fn.Pkg.Pkg.Path(), modPath+"/")
	} else if fn.Parent() != nil && fn.Parent().Pkg != nil {
		pk = strings.TrimPrefix(fn.Parent().Pkg.Pkg.Path(), modPath+"/")
	}
	return pk + "." + relName(fn)
}

func relName(fn *ssa.Function) string {
	var from *types.Package
	if fn.Pkg != nil {
		from = fn.Pkg.Pkg
	} else if fn.Parent() != nil && fn.Parent().Pkg != nil {
		from = fn.Parent().Pkg.Pkg
	}
	return fn.RelString(from)
}

// ---------------------------------------------------------------------------
// state access

func (g *Gen) heapGet(st *State, name string) string {
	if t, ok := st.heaps[name]; ok {
		return t
	}
	// initial version, shared by every path
	n := mangle(name) + "_0"
	sortName := g.heapSort(name)
	g.declare(n, sortName)
	g.entry.heaps[name] = n
	st.heaps[name] = n
	return n
}

func (g *Gen) heapSort(name string) string {
	if name == "$alloc" {
		return "Int"
	}
	if s, ok := g.sorts.heapUsed[name]; ok {
		return s
	}
	if wc, ok := g.w.world[name]; ok {
		if !g.worldSeen[name] {
			g.worldSeen[name] = true
			g.ensureSortNames(wc.Sort) // struct and option sorts of the table
		}
		return wc.Sort
	}
	if strings.HasPrefix(name, "HA_") {
		// array heap of a simple element sort named in a contract before any value of that type was seen
		el := strings.TrimPrefix(name, "HA_")
		if el == "Str" || el == "Int" || el == "Bool" || el == "Iface" || g.sorts.structs[el] != nil || (strings.HasPrefix(el, "T_") && g.sorts.ensureByName(el, g.w.lookupType)) {
			s := "(Array Int (Array Int " + el + "))"
			g.sorts.heapUsed[name] = s
			return s
		}
	}
	if strings.HasPrefix(name, "HP_") {
		// pointer heap of a struct sort named in a contract before any pointer of that type was seen
		el := strings.TrimPrefix(name, "HP_")
		if g.sorts.structs[el] != nil || g.sorts.ensureByName(el, g.w.lookupType) {
			s := "(Array Int " + el + ")"
			g.sorts.heapUsed[name] = s
			return s
		}
	}
	g.fail("unknown heap or world component %q", name)
	return ""
}

func (g *Gen) heapSet(st *State, name, term string) {
	st.heaps[name] = g.def(mangle(name), g.heapSort(name), term)
}

func (g *Gen) heapHavoc(st *State, name string) string {
	n := g.fresh(mangle(name)+"_h", g.heapSort(name))
	st.heaps[name] = n
	return n
}

func (g *Gen) allocLoc(st *State) string {
	cur := g.heapGet(st, "$alloc")
	n := g.def("loc", "Int", fmt.Sprintf("(+ %s 1)", cur))
	st.heaps["$alloc"] = n
	return n
}

func (g *Gen) newCell(name, sortName string, t types.Type) *Cell {
	g.cellCtr++
	return &Cell{id: g.cellCtr, name: name, sort: sortName, goT: t}
}

// zeroVal returns the zero value of a Go type as a Val.
func (g *Gen) zeroVal(t types.Type) Val {
	if _, ok := t.Underlying().(*types.Pointer); ok {
		return Val{Sort: "Int", Term: "0", GoT: t}
	}
	s := g.sorts.sortOf(t)
	z := g.sorts.zero(s, t)
	if z == "" {
		z = g.fresh("zero_"+s, s)
	}
	return Val{Sort: s, Term: z, GoT: t}
}

// freshVal introduces an unconstrained value of Go type t (with its type
// invariants assumed).
func (g *Gen) freshVal(prefix string, t types.Type, st *State) Val {
	if pt, ok := t.Underlying().(*types.Pointer); ok {
		// fresh pointer: a fresh cell with unconstrained content
		el := pt.Elem()
		c := g.newCell(prefix, g.sorts.sortOf(el), el)
		if st != nil {
			st.cells[c] = g.freshVal(prefix+"_deref", el, st)
		}
		out := Val{Ptr: &Addr{Cell: c}, GoT: t}
		if g.resultMode {
			// a pointer returned by a callee may be nil
			g.ctr++
			fl := fmt.Sprintf("%s_isnil_%d", mangle(prefix), g.ctr)
			g.declare(fl, "Bool")
			out.NilFlag = fl
		}
		return out
	}
	if tup, ok := t.(*types.Tuple); ok {
		var vs []Val
		for i := 0; i < tup.Len(); i++ {
			vs = append(vs, g.freshVal(fmt.Sprintf("%s_%d", prefix, i), tup.At(i).Type(), st))
		}
		return Val{Tuple: vs, GoT: t}
	}
	s := g.sorts.sortOf(t)
	n := g.fresh(prefix, s)
	for _, inv := range g.typeInv(n, t, 0) {
		g.assume(inv)
	}
	return Val{Sort: s, Term: n, GoT: t}
}

func intRange(b *types.Basic) (string, string, bool) {
	switch b.Kind() {
	case types.Int, types.Int64:
		return "(- 9223372036854775808)", "9223372036854775807", true
	case types.Int32:
		return "(- 2147483648)", "2147483647", true
	case types.Int16:
		return "(- 32768)", "32767", true
	case types.Int8:
		return "(- 128)", "127", true
	case types.Uint, types.Uint64, types.Uintptr:
		return "0", "18446744073709551615", true
	case types.Uint32:
		return "0", "4294967295", true
	case types.Uint16:
		return "0", "65535", true
	case types.Uint8:
		return "0", "255", true
	}
	return "", "", false
}

// typeInv: invariants that every Go value of type t satisfies.
func (g *Gen) typeInv(term string, t types.Type, depth int) []string {
	if depth > 3 || t == nil {
		return nil
	}
	if n, ok := t.(*types.Named); ok {
		full := ""
		if n.Obj().Pkg() != nil {
			full = n.Obj().Pkg().Path() + "." + n.Obj().Name()
		}
		if _, ov := sortOverrides[full]; ov {
			if full == "github.com/cosmos/cosmos-sdk/types.Coins" {
				g.useTheory("coins")
				return []string{fmt.Sprintf("(Coins_valid %s)", term)}
			}
			return nil
		}
	}
	switch u := t.Underlying().(type) {
	case *types.Basic:
		if lo, hi, ok := intRange(u); ok {
			return []string{fmt.Sprintf("(<= %s %s)", lo, term), fmt.Sprintf("(<= %s %s)", term, hi)}
		}
		if u.Info()&types.IsString != 0 {
			return nil
		}
	case *types.Struct:
		s := g.sorts.sortOf(t)
		info := g.sorts.structs[s]
		if info == nil {
			return nil
		}
		var out []string
		for _, f := range info.Fields {
			out = append(out, g.typeInv(fmt.Sprintf("(%s %s)", f.Sel, term), f.GoType, depth+1)...)
		}
		return out
	case *types.Slice:
		s := g.sorts.sortOf(t)
		if s == "Str" {
			return nil
		}
		out := []string{
			fmt.Sprintf("(<= 0 (off_%s %s))", s, term),
			fmt.Sprintf("(<= 0 (len_%s %s))", s, term),
			fmt.Sprintf("(<= (len_%s %s) (cap_%s %s))", s, term, s, term),
		}
		if es := elemSize(t); es > 0 {
			// a slice that exists fits the address space (what runtime.makeslice / growslice enforce when it is allocated)
			out = append(out, fmt.Sprintf("(<= (* %d (cap_%s %s)) %s)", es, s, term, maxAllocBytes))
		}
		if !g.resultMode && g.allocBound != "" {
			// storage that existed when the value was introduced: function entry (bound 0) or the loop head
			out = append(out, fmt.Sprintf("(<= (arr_%s %s) %s)", s, term, g.allocBound))
		}
		return out
	case *types.Map:
		if g.resultMode || g.allocBound == "" {
			return nil
		}
		return []string{fmt.Sprintf("(<= %s %s)", term, g.allocBound)}
	}
	return nil
}

// maxAllocBytes is runtime.maxAlloc on linux/amd64 (48 address bits).
const maxAllocBytes = "281474976710656"

var gcSizes = types.SizesFor("gc", "amd64")

// elemSize is the size in bytes of one element of a slice type (0 when it cannot be told).
func elemSize(t types.Type) (n int64) {
	defer func() {
		if recover() != nil {
			n = 0
		}
	}()
	sl, ok := t.Underlying().(*types.Slice)
	if !ok {
		return 0
	}
	return gcSizes.Sizeof(sl.Elem())
}

// load reads the value at an address.
func (g *Gen) load(st *State, a *Addr, t types.Type) Val {
	a = g.redirectEscaped(a)
	var root Val
	switch {
	case a.Cell != nil:
		v, ok := st.cells[a.Cell]
		if !ok {
			// global or late-bound cell: unconstrained initial content shared by all paths
			g.allocBound = "0"
			v = g.freshVal("cell_"+a.Cell.name, a.Cell.goT, g.entry)
			g.allocBound = ""
			if gl := g.cellGlobal[a.Cell]; gl != nil && v.Sort == "Err" && globalErrInitialised(gl) {
				// A-GLOBALS: a package-level error variable initialised with errors.New / fmt.Errorf / Register keeps that (non-nil) value
				g.assume(fmt.Sprintf("(not (= %s Err_nil))", v.Term))
				g.assumes["A-GLOBALS: package-level error variables keep the non-nil value their initialiser gives them"] = true
			}
			g.entry.cells[a.Cell] = v
			st.cells[a.Cell] = v
		}
		root = v
	case a.Heap != "":
		if a.Base {
			root = Val{Sort: g.heapElemSort(a.Heap, true), Term: fmt.Sprintf("(select %s %s)", g.heapGet(st, a.Heap), a.Loc)}
		} else if a.SliceSort != "" {
			root = Val{Sort: g.heapElemSort(a.Heap, false), Term: fmt.Sprintf("(sget_%s %s %s %s)", a.SliceSort, g.heapGet(st, a.Heap), a.SliceTerm, a.RawIdx)}
		} else {
			root = Val{Sort: g.heapElemSort(a.Heap, false), Term: fmt.Sprintf("(select (select %s %s) %s)", g.heapGet(st, a.Heap), a.Loc, a.Idx)}
		}
	case a.PHeap != "":
		root = Val{Sort: g.heapElemSort(a.PHeap, true), Term: fmt.Sprintf("(select %s %s)", g.heapGet(st, a.PHeap), a.PLoc)}
	default:
		g.fail("load from empty address")
	}
	for _, p := range a.Path {
		if root.Ptr != nil || root.Term == "" {
			g.fail("field path through a non-term value")
		}
		f := g.sorts.structs[p.sort].Fields[p.idx]
		root = Val{Sort: f.Sort, Term: fmt.Sprintf("(%s %s)", f.Sel, root.Term), GoT: f.GoType}
	}
	if root.GoT == nil {
		root.GoT = t
	}
	return root
}

func (g *Gen) heapElemSort(heap string, whole bool) string {
	s := g.heapSort(heap)
	_, el, _ := arrayParts(s)
	if whole {
		return el
	}
	_, el2, _ := arrayParts(el)
	return el2
}

// updatePath returns the term of root with the sub-value at path replaced.
func (g *Gen) updatePath(rootTerm string, path []pathStep, newTerm string) string {
	if len(path) == 0 {
		return newTerm
	}
	p := path[0]
	info := g.sorts.structs[p.sort]
	parts := []string{info.Ctor}
	for i, f := range info.Fields {
		sub := fmt.Sprintf("(%s %s)", f.Sel, rootTerm)
		if i == p.idx {
			sub = g.updatePath(sub, path[1:], newTerm)
		}
		parts = append(parts, sub)
	}
	return "(" + strings.Join(parts, " ") + ")"
}

// redirectEscaped: a local whose address was stored in the heap lives in the pointer heap from then on; accesses
// through the (static) local pointer go to the same object.
func (g *Gen) redirectEscaped(a *Addr) *Addr {
	if a != nil && a.Cell != nil {
		if e, ok := g.escaped[a.Cell]; ok {
			return &Addr{PHeap: e[0], PLoc: e[1], Path: a.Path}
		}
	}
	return a
}

func (g *Gen) store(st *State, a *Addr, v Val) {
	a = g.redirectEscaped(a)
	switch {
	case a.Cell != nil:
		if len(a.Path) == 0 {
			st.cells[a.Cell] = v
			return
		}
		old := g.load(st, &Addr{Cell: a.Cell}, nil)
		if v.Term == "" {
			g.fail("store of a pointer/closure into a struct field of cell %s is not supported", a.Cell.name)
		}
		nt := g.updatePath(old.Term, a.Path, v.Term)
		st.cells[a.Cell] = Val{Sort: old.Sort, Term: g.def("c_"+a.Cell.name, old.Sort, nt), GoT: old.GoT}
	case a.Heap != "":
		if v.Term == "" {
			g.fail("store of a static pointer into an array heap")
		}
		h := g.heapGet(st, a.Heap)
		if a.Base {
			g.heapSet(st, a.Heap, fmt.Sprintf("(store %s %s %s)", h, a.Loc, v.Term))
			return
		}
		elem := fmt.Sprintf("(select (select %s %s) %s)", h, a.Loc, a.Idx)
		nt := g.updatePath(elem, a.Path, v.Term)
		g.heapSet(st, a.Heap, fmt.Sprintf("(store %s %s (store (select %s %s) %s %s))", h, a.Loc, h, a.Loc, a.Idx, nt))
		// the same update in terms of the slice accessor (a consequence of its defining axiom, stated so that a
		// quantified fact about the elements before the write is instantiated by a question about them after it)
		if el := strings.TrimPrefix(a.Heap, "HA_"); el != a.Heap {
			if _, ok := g.sorts.sliceEl["Slice_"+el]; ok {
				h2 := g.heapGet(st, a.Heap)
				g.assume(fmt.Sprintf("(forall ((s!w Slice_%[1]s) (i!w Int)) (! (= (sget_Slice_%[1]s %[2]s s!w i!w) (ite (and (= (arr_Slice_%[1]s s!w) %[4]s) (= (+ (off_Slice_%[1]s s!w) i!w) %[5]s)) %[6]s (sget_Slice_%[1]s %[3]s s!w i!w))) :pattern ((sget_Slice_%[1]s %[2]s s!w i!w))))", el, h2, h, a.Loc, a.Idx, nt))
			}
		}
	case a.PHeap != "":
		if v.Term == "" {
			g.fail("store of a static pointer into a pointer heap")
		}
		h := g.heapGet(st, a.PHeap)
		elem := fmt.Sprintf("(select %s %s)", h, a.PLoc)
		nt := g.updatePath(elem, a.Path, v.Term)
		g.heapSet(st, a.PHeap, fmt.Sprintf("(store %s %s %s)", h, a.PLoc, nt))
	}
}

// ---------------------------------------------------------------------------
// frames

type Frame struct {
	g            *Gen
	fn           *ssa.Function
	prefix       string
	vals         map[ssa.Value]Val
	reach        map[*ssa.BasicBlock]string
	exit         map[*ssa.BasicBlock]*State
	edge         map[[2]int]string
	depth        int
	rets         []retInfo
	spec         *Contract // loop invariants
	loopOrd      map[*ssa.BasicBlock]int
	loopBlk      map[*ssa.BasicBlock]map[*ssa.BasicBlock]bool
	isTop        bool
	iterOrd      int
	rangeIt      map[ssa.Value]*rangeState
	iterCells    map[ssa.Value]*Cell
	loopInfos    map[*ssa.BasicBlock]*loopInfo
	loopAlias    map[*ssa.BasicBlock]map[string]string
	loopEntry    map[*ssa.BasicBlock]*State
	adoptedLoops int           // loop clauses of the contract handed to inlined helpers
	curArgs      []ssa.Value   // SSA arguments of the call being translated
	pendingCells []pendingCell // cells created while defining phis: installed into the block's entry state
}

type pendingCell struct {
	c *Cell
	v Val
}

type retInfo struct {
	reach   string
	results []Val
	st      *State
	pos     token.Pos
	block   *ssa.BasicBlock
}

type rangeState struct {
	mapVal   Val
	snapshot string // MapVal term at range creation
}

func (f *Frame) name(v ssa.Value) string { return f.prefix + v.Name() }

func (f *Frame) val(v ssa.Value, st *State) Val {
	g := f.g
	switch x := v.(type) {
	case *ssa.Const:
		return g.constVal(x)
	case *ssa.Global:
		c := g.globals[x]
		if c == nil {
			el := x.Type().(*types.Pointer).Elem()
			c = g.newCell("glob_"+x.Name(), g.sorts.sortOf(el), el)
			g.globals[x] = c
			if g.cellGlobal == nil {
				g.cellGlobal = map[*Cell]*ssa.Global{}
			}
			g.cellGlobal[c] = x
		}
		return Val{Ptr: &Addr{Cell: c}, GoT: x.Type()}
	case *ssa.Function:
		return Val{Sort: "Func", Fn: x, Term: "func_" + mangle(x.String()), GoT: x.Type()}
	case *ssa.Builtin:
		return Val{Sort: "Func", Term: "builtin_" + x.Name()}
	}
	if val, ok := f.vals[v]; ok {
		return val
	}
	g.fail("%s: value %s (%T) used before definition", f.fn.Name(), v.Name(), v)
	return Val{}
}

func (g *Gen) constVal(c *ssa.Const) Val {
	t := c.Type()
	if c.Value == nil {
		// nil or zero value
		switch u := t.Underlying().(type) {
		case *types.Pointer:
			return Val{Sort: "Int", Term: "0", GoT: t}
		case *types.Interface:
			if g.sorts.sortOf(t) == "Err" {
				return Val{Sort: "Err", Term: "Err_nil", GoT: t}
			}
			return Val{Sort: "Iface", Term: "Iface_nil", GoT: t}
		case *types.Slice:
			if g.sorts.sortOf(t) == "Str" {
				// nil []byte is distinguishable from every stored value (KVStore.Get returns nil for an absent key)
				g.useTheory("kv")
				return Val{Sort: "Str", Term: "Bytes_nil", GoT: t}
			}
			return g.zeroVal(t)
		case *types.Map, *types.Struct, *types.Basic, *types.Array:
			_ = u
			return g.zeroVal(t)
		case *types.Signature:
			return Val{Sort: "Func", Term: "Func_nil", GoT: t}
		}
		return g.zeroVal(t)
	}
	switch c.Value.Kind() {
	case constant.Bool:
		if constant.BoolVal(c.Value) {
			return Val{Sort: "Bool", Term: "true", GoT: t}
		}
		return Val{Sort: "Bool", Term: "false", GoT: t}
	case constant.Int:
		s := c.Value.ExactString()
		if strings.HasPrefix(s, "-") {
			s = "(- " + s[1:] + ")"
		}
		sortName := g.sorts.sortOf(t)
		if sortName != "Int" {
			g.fail("integer constant of sort %s", sortName)
		}
		return Val{Sort: "Int", Term: s, GoT: t}
	case constant.String:
		return Val{Sort: "Str", Term: g.strLit(constant.StringVal(c.Value)), GoT: t}
	}
	// floats etc.
	return g.freshVal("const", t, nil)
}

func (g *Gen) strLit(s string) string {
	return strLit(s)
}

// ---------------------------------------------------------------------------
// CFG helpers

func rpo(fn *ssa.Function) []*ssa.BasicBlock {
	seen := map[*ssa.BasicBlock]bool{}
	var post []*ssa.BasicBlock
	var dfs func(b *ssa.BasicBlock)
	dfs = func(b *ssa.BasicBlock) {
		seen[b] = true
		for i := len(b.Succs) - 1; i >= 0; i-- {
			s := b.Succs[i]
			if !seen[s] {
				dfs(s)
			}
		}
		post = append(post, b)
	}
	if len(fn.Blocks) > 0 {
		dfs(fn.Blocks[0])
	}
	for i, j := 0, len(post)-1; i < j; i, j = i+1, j-1 {
		post[i], post[j] = post[j], post[i]
	}
	return post
}

func isBackEdge(p, h *ssa.BasicBlock) bool { return h.Dominates(p) }

// naturalLoop returns the blocks of the loop with header h.
func naturalLoop(h *ssa.BasicBlock) map[*ssa.BasicBlock]bool {
	body := map[*ssa.BasicBlock]bool{h: true}
	var stack []*ssa.BasicBlock
	for _, p := range h.Preds {
		if isBackEdge(p, h) && !body[p] {
			body[p] = true
			stack = append(stack, p)
		}
	}
	for len(stack) > 0 {
		b := stack[len(stack)-1]
		stack = stack[:len(stack)-1]
		for _, p := range b.Preds {
			if !body[p] {
				body[p] = true
				stack = append(stack, p)
			}
		}
	}
	return body
}

func hasLoops(fn *ssa.Function) bool {
	for _, b := range fn.Blocks {
		for _, p := range b.Preds {
			if isBackEdge(p, b) {
				return true
			}
		}
	}
	return false
}

// ---------------------------------------------------------------------------
// running a function body

func (g *Gen) runFunc(fn *ssa.Function, args []Val, free []Val, st *State, reach string, depth int, spec *Contract, isTop bool) ([]Val, *State, string) {
	if len(fn.Blocks) == 0 {
		g.fail("function %s has no body", fn.String())
	}
	g.ctr++
	f := &Frame{g: g, fn: fn, prefix: fmt.Sprintf("f%d_", g.ctr), vals: map[ssa.Value]Val{}, reach: map[*ssa.BasicBlock]string{},
		exit: map[*ssa.BasicBlock]*State{}, edge: map[[2]int]string{}, depth: depth, spec: spec, isTop: isTop,
		loopOrd: map[*ssa.BasicBlock]int{}, loopBlk: map[*ssa.BasicBlock]map[*ssa.BasicBlock]bool{}, rangeIt: map[ssa.Value]*rangeState{},
		iterCells: map[ssa.Value]*Cell{}, loopInfos: map[*ssa.BasicBlock]*loopInfo{}}
	if isTop {
		f.prefix = ""
	}
	g.stack = append(g.stack, fn)
	defer func() { g.stack = g.stack[:len(g.stack)-1] }()
	for i, p := range fn.Params {
		f.vals[p] = args[i]
	}
	for i, fv := range fn.FreeVars {
		f.vals[fv] = free[i]
	}
	// loop headers in source order
	var headers []*ssa.BasicBlock
	for _, b := range fn.Blocks {
		for _, p := range b.Preds {
			if isBackEdge(p, b) {
				headers = append(headers, b)
				break
			}
		}
	}
	sort.Slice(headers, func(i, j int) bool { return headers[i].Index < headers[j].Index })
	for i, h := range headers {
		f.loopOrd[h] = i
		f.loopBlk[h] = naturalLoop(h)
	}
	order := rpo(fn)
	for _, b := range order {
		var bst *State
		var breach string
		if b == fn.Blocks[0] {
			bst, breach = st, reach
		} else {
			bst, breach = f.joinPreds(b)
		}
		if _, isHdr := f.loopOrd[b]; isHdr {
			bst, breach = f.loopHeader(b, bst, breach)
		} else {
			f.phis(b, nil)
		}
		for _, pc := range f.pendingCells {
			bst.cells[pc.c] = pc.v
		}
		f.pendingCells = nil
		breach = g.defBool(f.prefix+"reach_"+fmt.Sprint(b.Index), breach)
		f.reach[b] = breach
		cur := bst
		for _, ins := range b.Instrs {
			if _, ok := ins.(*ssa.Phi); ok {
				continue
			}
			f.instr(b, ins, cur)
		}
		f.exit[b] = cur
	}
	if isTop {
		g.topFrame = f
	}
	// merge returns
	return f.mergeReturns()
}

func (g *Gen) defBool(prefix, term string) string {
	if isAtomic(term) {
		return term
	}
	g.ctr++
	n := fmt.Sprintf("%s_%d", mangle(prefix), g.ctr)
	g.declare(n, "Bool")
	g.emit(fmt.Sprintf("(assert (= %s %s))", n, term))
	return n
}

// forward predecessors with their edge terms
func (f *Frame) fwdPreds(b *ssa.BasicBlock) ([]*ssa.BasicBlock, []string) {
	var ps []*ssa.BasicBlock
	var es []string
	for _, p := range b.Preds {
		if isBackEdge(p, b) {
			continue
		}
		e, ok := f.edge[[2]int{p.Index, b.Index}]
		if !ok {
			continue // predecessor unreachable
		}
		ps = append(ps, p)
		es = append(es, e)
	}
	return ps, es
}

func (f *Frame) joinPreds(b *ssa.BasicBlock) (*State, string) {
	g := f.g
	ps, es := f.fwdPreds(b)
	if len(ps) == 0 {
		return &State{cells: map[*Cell]Val{}, heaps: map[string]string{}}, "false"
	}
	reach := or(es...)
	if len(ps) == 1 {
		return f.exit[ps[0]].clone(), reach
	}
	// merge
	out := f.exit[ps[0]].clone()
	// heaps
	names := map[string]bool{}
	for _, p := range ps {
		for n := range f.exit[p].heaps {
			names[n] = true
		}
	}
	var hn []string
	for n := range names {
		hn = append(hn, n)
	}
	sort.Strings(hn)
	for _, n := range hn {
		terms := make([]string, len(ps))
		same := true
		for i, p := range ps {
			terms[i] = g.heapGet(f.exit[p], n)
			if terms[i] != terms[0] {
				same = false
			}
		}
		if same {
			out.heaps[n] = terms[0]
			continue
		}
		out.heaps[n] = g.def(mangle(n)+"_j", g.heapSort(n), iteChain(es, terms))
	}
	// cells
	cellset := map[*Cell]bool{}
	for _, p := range ps {
		for c := range f.exit[p].cells {
			cellset[c] = true
		}
	}
	var cs []*Cell
	for c := range cellset {
		cs = append(cs, c)
	}
	sort.Slice(cs, func(i, j int) bool { return cs[i].id < cs[j].id })
	for _, c := range cs {
		vals := make([]Val, 0, len(ps))
		var ees []string
		missing := false
		for i, p := range ps {
			v, ok := f.exit[p].cells[c]
			if !ok {
				missing = true
				continue
			}
			vals = append(vals, v)
			ees = append(ees, es[i])
		}
		if missing {
			// cell allocated on some paths only: it is dead on the others
			if len(vals) == 0 {
				continue
			}
		}
		same := true
		for _, v := range vals {
			if !sameVal(v, vals[0]) {
				same = false
			}
		}
		if same {
			out.cells[c] = vals[0]
			continue
		}
		mixed := false
		for _, v := range vals {
			if v.Term == "" {
				mixed = true
			}
		}
		if mixed {
			// a pointer-valued cell that differs between the joining paths: its content is no longer tracked
			g.note("pointer cell %s differs on joining paths (content untracked afterwards)", c.name)
			delete(out.cells, c)
			continue
		}
		terms := make([]string, len(vals))
		for i, v := range vals {
			terms[i] = v.Term
		}
		out.cells[c] = Val{Sort: vals[0].Sort, Term: g.def("c_"+c.name+"_j", vals[0].Sort, iteChain(ees, terms)), GoT: vals[0].GoT}
	}
	return out, reach
}

func sameVal(a, b Val) bool {
	if a.Ptr != nil || b.Ptr != nil {
		if a.Ptr == nil || b.Ptr == nil {
			return false
		}
		return sameAddr(a.Ptr, b.Ptr)
	}
	if a.Clo != nil || b.Clo != nil {
		return a.Clo == b.Clo
	}
	return a.Term == b.Term
}

func sameAddr(a, b *Addr) bool {
	if a.Cell != b.Cell || a.Heap != b.Heap || a.Loc != b.Loc || a.Idx != b.Idx || a.PHeap != b.PHeap || a.PLoc != b.PLoc || len(a.Path) != len(b.Path) {
		return false
	}
	for i := range a.Path {
		if a.Path[i] != b.Path[i] {
			return false
		}
	}
	return true
}

func iteChain(conds, terms []string) string {
	if len(terms) == 1 {
		return terms[0]
	}
	out := terms[len(terms)-1]
	for i := len(terms) - 2; i >= 0; i-- {
		if terms[i] == out {
			continue
		}
		out = fmt.Sprintf("(ite %s %s %s)", conds[i], terms[i], out)
	}
	return out
}

// phis defines the phi nodes of a non-header block from its forward edges.
func (f *Frame) phis(b *ssa.BasicBlock, only map[*ssa.Phi]bool) {
	g := f.g
	for _, ins := range b.Instrs {
		phi, ok := ins.(*ssa.Phi)
		if !ok {
			break
		}
		var conds []string
		var vals []Val
		for i, p := range b.Preds {
			if isBackEdge(p, b) {
				continue
			}
			e, ok := f.edge[[2]int{p.Index, b.Index}]
			if !ok {
				continue
			}
			conds = append(conds, e)
			vals = append(vals, f.val(phi.Edges[i], f.exit[p]))
		}
		if len(vals) == 0 {
			f.vals[phi] = g.freshVal(f.name(phi), phi.Type(), nil)
			continue
		}
		same := true
		for _, v := range vals {
			if !sameVal(v, vals[0]) {
				same = false
			}
		}
		if same {
			f.vals[phi] = vals[0]
			continue
		}
		if pt, isPtr := phi.Type().Underlying().(*types.Pointer); isPtr {
			// pointers to different objects meet: continue with a copy whose content is the selected object's
			// (sound as long as the original objects are not observed afterwards: A-PHIPTR, recorded as a note)
			el := pt.Elem()
			srt := g.sorts.sortOf(el)
			terms := make([]string, len(vals))
			flags := make([]string, len(vals))
			filler := ""
			okAll := true
			k := 0
			for i, p := range b.Preds {
				if isBackEdge(p, b) {
					continue
				}
				if _, ok := f.edge[[2]int{p.Index, b.Index}]; !ok {
					continue
				}
				v := vals[k]
				if v.Ptr != nil {
					lv := g.load(f.exit[p], v.Ptr, el)
					if lv.Term == "" {
						okAll = false
					}
					terms[k] = lv.Term
					filler = lv.Term
					flags[k] = "false"
					if v.NilFlag != "" {
						flags[k] = v.NilFlag
					}
				} else if v.Term == "0" {
					flags[k] = "true"
				} else {
					okAll = false
				}
				k++
				_ = i
			}
			if okAll && filler != "" {
				for i := range terms {
					if terms[i] == "" {
						terms[i] = filler
					}
				}
				c := g.newCell(f.prefix+phi.Name()+"_phi", srt, el)
				f.pendingCells = append(f.pendingCells, pendingCell{c, Val{Sort: srt, Term: g.def(f.name(phi)+"_deref", srt, iteChain(conds, terms)), GoT: el}})
				res := Val{Ptr: &Addr{Cell: c}, GoT: phi.Type()}
				allFalse := true
				for _, fl := range flags {
					if fl != "false" {
						allFalse = false
					}
				}
				if !allFalse {
					res.NilFlag = g.defBool(f.name(phi)+"_isnil", iteChain(conds, flags))
				}
				g.note("pointers to different objects meet at a join in %s: the merged pointer works on a copy (A-PHIPTR)", relName(f.fn))
				f.vals[phi] = res
				continue
			}
		}
		if vals[0].Term == "" {
			g.fail("%s: phi %s merges different static pointers", f.fn.Name(), phi.Name())
		}
		terms := make([]string, len(vals))
		for i, v := range vals {
			if v.Term == "" {
				g.fail("%s: phi %s merges a static pointer with a term", f.fn.Name(), phi.Name())
			}
			terms[i] = v.Term
		}
		f.vals[phi] = Val{Sort: vals[0].Sort, Term: g.def(f.name(phi), vals[0].Sort, iteChain(conds, terms)), GoT: phi.Type()}
	}
}

func (f *Frame) mergeReturns() ([]Val, *State, string) {
	g := f.g
	if len(f.rets) == 0 {
		return nil, &State{cells: map[*Cell]Val{}, heaps: map[string]string{}}, "false"
	}
	if len(f.rets) == 1 {
		r := f.rets[0]
		return r.results, r.st, r.reach
	}
	var es []string
	for _, r := range f.rets {
		es = append(es, r.reach)
	}
	reach := g.defBool(f.prefix+"reach_exit", or(es...))
	out := f.rets[0].st.clone()
	names := map[string]bool{}
	for _, r := range f.rets {
		for n := range r.st.heaps {
			names[n] = true
		}
	}
	var hn []string
	for n := range names {
		hn = append(hn, n)
	}
	sort.Strings(hn)
	for _, n := range hn {
		terms := make([]string, len(f.rets))
		for i, r := range f.rets {
			terms[i] = g.heapGet(r.st, n)
		}
		out.heaps[n] = g.def(mangle(n)+"_x", g.heapSort(n), iteChain(es, terms))
	}
	cellset := map[*Cell]bool{}
	for _, r := range f.rets {
		for c := range r.st.cells {
			cellset[c] = true
		}
	}
	var cs []*Cell
	for c := range cellset {
		cs = append(cs, c)
	}
	sort.Slice(cs, func(i, j int) bool { return cs[i].id < cs[j].id })
	for _, c := range cs {
		var vals []Val
		var ees []string
		for i, r := range f.rets {
			if v, ok := r.st.cells[c]; ok {
				vals = append(vals, v)
				ees = append(ees, es[i])
			}
		}
		if len(vals) != len(f.rets) {
			// cell not live on every return path: it is dead after the call
			delete(out.cells, c)
			continue
		}
		same := true
		for _, v := range vals {
			if !sameVal(v, vals[0]) {
				same = false
			}
		}
		if same {
			out.cells[c] = vals[0]
			continue
		}
		mixed := false
		for _, v := range vals {
			if v.Term == "" {
				mixed = true
			}
		}
		if mixed {
			delete(out.cells, c)
			continue
		}
		terms := make([]string, len(vals))
		for i, v := range vals {
			terms[i] = v.Term
		}
		out.cells[c] = Val{Sort: vals[0].Sort, Term: g.def("c_"+c.name+"_x", vals[0].Sort, iteChain(ees, terms)), GoT: vals[0].GoT}
	}
	nres := len(f.rets[0].results)
	results := make([]Val, nres)
	for k := 0; k < nres; k++ {
		var vals []Val
		for _, r := range f.rets {
			vals = append(vals, r.results[k])
		}
		same := true
		for _, v := range vals {
			if !sameVal(v, vals[0]) {
				same = false
			}
		}
		if same {
			results[k] = vals[0]
			continue
		}
		// pointer results: merge by content into a fresh cell; nil results only contribute to the nil flag
		if rt, isPtr := f.fn.Signature.Results().At(k).Type().Underlying().(*types.Pointer); isPtr {
			anyPtr := false
			for _, v := range vals {
				if v.Ptr != nil {
					anyPtr = true
				}
			}
			if anyPtr {
				el := rt.Elem()
				srt := g.sorts.sortOf(el)
				c := g.newCell(fmt.Sprintf("ret%d", k), srt, el)
				terms := make([]string, len(vals))
				flags := make([]string, len(vals))
				ok := true
				var filler string
				for i, v := range vals {
					if v.Ptr == nil {
						flags[i] = "true" // nil constant
						continue
					}
					lv := g.load(f.rets[i].st, v.Ptr, el)
					if lv.Term == "" {
						ok = false
						break
					}
					terms[i] = lv.Term
					filler = lv.Term
					flags[i] = "false"
					if v.NilFlag != "" {
						flags[i] = v.NilFlag
					}
				}
				if ok {
					for i := range terms {
						if terms[i] == "" {
							terms[i] = filler
						}
					}
					out.cells[c] = Val{Sort: srt, Term: g.def(fmt.Sprintf("ret%d_deref", k), srt, iteChain(es, terms)), GoT: el}
					res := Val{Ptr: &Addr{Cell: c}, GoT: f.fn.Signature.Results().At(k).Type()}
					allFalse := true
					for _, fl := range flags {
						if fl != "false" {
							allFalse = false
						}
					}
					if !allFalse {
						res.NilFlag = g.defBool(fmt.Sprintf("%sret%d_isnil", f.prefix, k), iteChain(es, flags))
					}
					results[k] = res
					continue
				}
			}
		}
		terms := make([]string, len(vals))
		for i, v := range vals {
			if v.Term == "" {
				// mixture of nil and pointer results: represent nil-ness only
				if v.Ptr != nil {
					terms[i] = "1"
				} else {
					g.fail("%s: cannot merge results", f.fn.Name())
				}
			} else {
				terms[i] = v.Term
			}
		}
		srt := vals[0].Sort
		if srt == "" {
			srt = "Int"
		}
		results[k] = Val{Sort: srt, Term: g.def(fmt.Sprintf("%sresult%d", f.prefix, k), srt, iteChain(es, terms)), GoT: f.fn.Signature.Results().At(k).Type()}
	}
	return results, out, reach
}

// globalErrInitialised: the package initialiser stores the result of an error constructor into the global.
func globalErrInitialised(gl *ssa.Global) bool {
	if gl.Pkg == nil {
		return false
	}
	init := gl.Pkg.Func("init")
	if init == nil {
		return false
	}
	for _, b := range init.Blocks {
		for _, ins := range b.Instrs {
			st, ok := ins.(*ssa.Store)
			if !ok || st.Addr != ssa.Value(gl) {
				continue
			}
			v := st.Val
			if mi, ok := v.(*ssa.MakeInterface); ok {
				v = mi.X
			}
			if c, ok := v.(*ssa.Call); ok {
				if callee := c.Common().StaticCallee(); callee != nil {
					switch callee.String() {
					case "fmt.Errorf", "errors.New", "github.com/cosmos/cosmos-sdk/types/errors.Register", "cosmossdk.io/errors.Register":
						return true
					}
				}
			}
		}
	}
	return false
}
