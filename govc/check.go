package main

func runCheck(repo, verif, prop, tier string, timeout, par int, keep bool) int { return 2 }
