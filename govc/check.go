package main

import (
	"encoding/json"
	"fmt"
	"os"
	"os/exec"
	"path/filepath"
	"sort"
	"strconv"
	"strings"
	"time"
)

type KnownFinding struct {
	Property   string `json:"property"`
	Obligation string `json:"obligation"`
	Class      string `json:"class,omitempty"`
	What       string `json:"what"`
}

type KnownFile struct {
	Findings []KnownFinding `json:"findings"`
	Fixed    []string       `json:"fixed"`
}

func loadKnown(verif string) (*KnownFile, error) {
	kf := &KnownFile{}
	b, err := os.ReadFile(filepath.Join(verif, "known_findings.json"))
	if err != nil {
		if os.IsNotExist(err) {
			return kf, nil
		}
		return nil, err
	}
	if err := json.Unmarshal(b, kf); err != nil {
		return nil, fmt.Errorf("known_findings.json: %v", err)
	}
	return kf, nil
}

func contains(xs []string, x string) bool {
	for _, y := range xs {
		if y == x {
			return true
		}
	}
	return false
}

func contractServes(c *Contract, prop string) bool {
	if contains(c.Props, prop) {
		return true
	}
	for _, cl := range c.Ensures {
		if contains(cl.Props, prop) {
			return true
		}
	}
	for _, ls := range c.Loops {
		for _, cl := range ls.Invariants {
			if contains(cl.Props, prop) {
				return true
			}
		}
	}
	return false
}

type replayFile struct {
	Property   string                 `json:"property"`
	Obligation string                 `json:"obligation"`
	Kind       string                 `json:"kind"`
	Function   string                 `json:"function"`
	Position   string                 `json:"position,omitempty"`
	Goal       string                 `json:"goal,omitempty"`
	Verdict    string                 `json:"verdict"`
	Solver     string                 `json:"solver"`
	SMTFile    string                 `json:"smt_file,omitempty"`
	Output     string                 `json:"verifier_output"`
	Replay     *ReplayOutcome         `json:"replay,omitempty"`
	Confirmed  bool                   `json:"confirmed_on_real_code"`
	Note       string                 `json:"note,omitempty"`
	Extra      map[string]interface{} `json:"extra,omitempty"`
}

// decProps: properties whose contracts use the decimal arithmetic model (theory dec)
var decProps = map[string]bool{"C03": true, "C04": true, "C05": true, "C07": true, "C12": true, "C13": true, "C15": true, "C16": true}

// scenarioRuns: scenario replays executed in the thorough tier (recorded in the evidence)
var scenarioRuns []map[string]string

func runCheck(repo, verif, prop, tier string, timeout, par int, keep bool) int {
	start := time.Now()
	seed := 0
	if s := os.Getenv("VERIF_SEED"); s != "" {
		seed, _ = strconv.Atoi(s)
	}
	if timeout == 0 {
		timeout = 20
		if tier == "thorough" {
			timeout = 90
		}
	}
	evDir := filepath.Join(verif, "evidence")
	if d := os.Getenv("VERIF_EVIDENCE_DIR"); d != "" {
		evDir = d // selftest runs against scratch trees must not overwrite the evidence of the real tree
	}
	evPath := filepath.Join(evDir, prop+".json")
	os.MkdirAll(filepath.Join(evDir, "replay"), 0o755)
	os.Remove(evPath)
	if stale, _ := filepath.Glob(filepath.Join(evDir, "replay", prop+"-*.json")); len(stale) > 0 {
		for _, f := range stale { // replay files of earlier runs of this property
			os.Remove(f)
		}
	}
	broken := func(msg string) int {
		fmt.Printf("BROKEN property=%s %s\n", prop, msg)
		return 2
	}
	known, err := loadKnown(verif)
	if err != nil {
		return broken(err.Error())
	}
	violations := 0
	var lines []string
	report := func(rf *replayFile, suffix string) {
		violations++
		name := fmt.Sprintf("%s-%s.json", prop, mangle(truncate(rf.Obligation, 100)))
		p := filepath.Join(evDir, "replay", name)
		b, _ := json.MarshalIndent(rf, "", " ")
		os.WriteFile(p, b, 0o644)
		l := fmt.Sprintf("VIOLATION property=%s replay=%s", prop, p)
		if suffix != "" {
			l += " " + suffix
		}
		lines = append(lines, l)
		fmt.Println(l)
	}
	cs, _, err := loadRepoContracts(repo)
	if err != nil {
		// a contract file that no longer parses: the property can no longer be shown
		report(&replayFile{Property: prop, Obligation: "contracts#engine:parse", Kind: "engine", Verdict: "engine-error", Output: err.Error()}, "no-failing-input-found")
		writeEvidence(evPath, prop, tier, seed, nil, nil, nil, known, time.Since(start).Seconds(), violations, "")
		return 1
	}
	pats := contractPackages(repo, cs, func(c *Contract) bool { return contractServes(c, prop) })
	if prop == "C11" {
		for _, m := range customModules {
			pats = append(pats, "./x/"+m, "./x/"+m+"/types")
		}
		// whoever may run a message handler (handlerInvocations): the application wiring and the contract bindings
		pats = append(pats, "./app/...", "./wasmbinding/...")
	}
	if prop == "C05" {
		for _, m := range append(append([]string{}, customModules...), "jklmint") {
			pats = append(pats, "./x/"+m)
		}
	}
	if prop == "C19" {
		for _, m := range append(append([]string{}, customModules...), "jklmint") {
			pats = append(pats, "./x/"+m, "./x/"+m+"/keeper")
		}
	}
	if prop == "C06" {
		for _, m := range append(append([]string{}, customModules...), "jklmint") {
			pats = append(pats, "./x/"+m, "./x/"+m+"/keeper", "./x/"+m+"/types")
		}
	}
	for _, rule := range writerRules[prop] {
		for _, rel := range rule.Pkgs {
			pats = append(pats, "./"+rel)
		}
	}
	if len(pats) == 0 {
		return broken("no contract serves this property")
	}
	w, err := loadWorkspace(repo, verif, pats)
	if err != nil {
		report(&replayFile{Property: prop, Obligation: "workspace#engine:load", Kind: "engine", Verdict: "engine-error", Output: err.Error()}, "no-failing-input-found")
		writeEvidence(evPath, prop, tier, seed, nil, nil, nil, known, time.Since(start).Seconds(), violations, "")
		return 1
	}
	w.known = known
	var ks []string
	for k, c := range w.contracts {
		if contractServes(c, prop) && !c.Trusted {
			ks = append(ks, k)
		}
	}
	sort.Strings(ks)
	var results []*FuncResult
	// The contracts that serve the property, and then, transitively, every verified contract and lemma of the
	// repository that their proofs used at a call site: a caller is checked against its callee's contract, so whatever
	// the callee's contract promises is part of what the property rests on, whichever properties the callee lists.
	selected := map[string]bool{}
	reliedBy := map[string]string{}
	queue := append([]string{}, ks...)
	for _, k := range ks {
		selected[k] = true
	}
	for len(queue) > 0 {
		k := queue[0]
		queue = queue[1:]
		ct := w.contracts[k]
		r := w.verifyFunction(k, ct)
		direct := contractServes(ct, prop)
		var mine []*Obligation
		for _, o := range r.Obls {
			if direct && contains(o.Props, prop) {
				mine = append(mine, o)
			} else if !direct {
				// relied upon by a function of this property: all of its obligations count
				o.Props = append(append([]string{}, o.Props...), prop)
				mine = append(mine, o)
			}
		}
		r.Obls = mine
		if !direct {
			r.Notes = append(r.Notes, "under this property because the proof of "+shortKey(reliedBy[k])+" uses its contract")
		}
		results = append(results, r)
		rel := append([]string{}, r.Relies...)
		sort.Strings(rel)
		for _, dep := range rel {
			dc := w.contracts[dep]
			if dc == nil || selected[dep] || (dc.Trusted && !dc.IsLemma) {
				continue
			}
			selected[dep] = true
			reliedBy[dep] = k
			queue = append(queue, dep)
		}
	}
	if prop == "C11" {
		results = append(results, w.structuralC11())
		results = append(results, w.structuralC11Frames())
	}
	if prop == "C05" {
		results = append(results, w.structuralC05())
	}
	if prop == "C12" {
		results = append(results, w.structuralC12())
	}
	if prop == "C19" {
		results = append(results, w.structuralC19())
	}
	if prop == "C06" {
		results = append(results, w.structuralC06())
	}
	if r := w.structuralWriters(prop); r != nil {
		results = append(results, r)
	}
	{
		// trusted, unverified repository contracts the proofs of this property used: pinned to their bodies
		var all []string
		seenRel := map[string]bool{}
		for _, r := range results {
			for _, k := range r.Relies {
				if !seenRel[k] {
					seenRel[k] = true
					all = append(all, k)
				}
			}
		}
		if r := w.structuralPins(prop, all); r != nil {
			results = append(results, r)
		}
	}
	outDir := filepath.Join(verif, "out", prop+"-"+tier)
	if os.Getenv("VERIF_EVIDENCE_DIR") != "" {
		outDir = filepath.Join(os.Getenv("VERIF_EVIDENCE_DIR"), "smt-"+prop)
	}
	os.RemoveAll(outDir)
	solveAll(outDir, results, timeout, par)

	// baseline of contract-derived obligations
	missing := checkBaseline(verif, prop, results)

	var claimed, discharged, vacuityOK, vacuityUnknown int
	var solverTime float64
	bySolver := map[string]int{}
	var knownHit []string
	knownByObl := map[string]KnownFinding{}
	for _, k := range known.Findings {
		if k.Property == prop {
			knownByObl[k.Obligation] = k
		}
	}
	isBroken := ""
	scratch := os.Getenv("VERIF_SCRATCH")
	if scratch == "" {
		scratch = "/var/tmp/verif-scratch"
	}
	scratch = filepath.Join(scratch, fmt.Sprintf("%s-%d", prop, os.Getpid()))
	defer os.RemoveAll(scratch)
	for _, r := range results {
		// a satisfiable canary implies that the exit is reachable
		canarySat := false
		for _, o := range r.Obls {
			if o.Kind == "canary" && (o.Verdict == "sat" || o.Verdict == "sat-ground") {
				canarySat = true
			}
		}
		if canarySat {
			for _, o := range r.Obls {
				if o.Kind == "cover" && o.Verdict == "unknown" {
					o.Verdict, o.Solver = "sat", "implied-by-canary"
				}
			}
		}
		if r.Err != "" {
			report(&replayFile{Property: prop, Obligation: r.Key + "#engine:unsupported", Kind: "engine", Function: r.Key, Verdict: "engine-error", Output: r.Err,
				Note: "the obligations of this function can no longer be generated, so the property can no longer be shown"}, "no-failing-input-found")
			continue
		}
		for _, o := range r.Obls {
			solverTime += o.Time
			if o.ExpectSat {
				switch o.Verdict {
				case "sat", "sat-ground":
					vacuityOK++
				case "unsat":
					isBroken = fmt.Sprintf("vacuity guard %s is unsatisfiable: the contract of %s excludes every execution", o.Name, r.Key)
				default:
					vacuityUnknown++
					fmt.Printf("  note: vacuity guard undecided (%s): %s\n", o.Verdict, o.Name)
				}
				continue
			}
			outside := strings.HasSuffix(o.Label, "!outside_known")
			if kfnd, ok := knownByObl[o.Name]; ok && !outside {
				if o.Verdict == "unsat" {
					// the finding no longer reproduces (repaired): counts as a normal discharged obligation
					claimed++
					discharged++
					bySolver[o.Solver]++
					continue
				}
				l := fmt.Sprintf("KNOWN-FINDING: property=%s %s [%s]", prop, kfnd.What, o.Name)
				fmt.Println(l)
				knownHit = append(knownHit, o.Name)
				continue
			}
			claimed++
			switch o.Verdict {
			case "unsat":
				discharged++
				bySolver[o.Solver]++
				if !keep && o.File != "" {
					os.Remove(o.File)
				}
			case "sat":
				rf := &replayFile{Property: prop, Obligation: o.Name, Kind: o.Kind, Function: r.Key, Position: o.Pos, Goal: o.GoalSrc, Verdict: "sat (counterexample)", Solver: o.Solver, SMTFile: o.File, Output: o.Output}
				ro := w.genericReplay(r, o, scratch)
				if !ro.Confirmed {
					if so := w.scenarioReplay(o, scratch); so != nil {
						ro = so
					}
				}
				rf.Replay = ro
				if ro.Confirmed {
					rf.Confirmed = true
					report(rf, "")
				} else {
					report(rf, "no-failing-input-found")
				}
			default:
				rf := &replayFile{Property: prop, Obligation: o.Name, Kind: o.Kind, Function: r.Key, Position: o.Pos, Goal: o.GoalSrc, Verdict: o.Verdict + " (undecided: no solver discharged the obligation)", Solver: o.Solver, SMTFile: o.File, Output: o.Output}
				if so := w.scenarioReplay(o, scratch); so != nil {
					rf.Replay = so
					if so.Confirmed {
						rf.Confirmed = true
						report(rf, "")
						continue
					}
				}
				report(rf, "no-failing-input-found")
			}
		}
	}
	// thorough tier: every scenario registered for a discharged obligation of this property is replayed on the real
	// code (regression of repaired defects at run-time level; a bounded, dynamic cross-check of the contracts, not proof)
	if tier == "thorough" {
		scn := loadScenarios(verif)
		ran := map[string]bool{}
		for _, r := range results {
			for _, o := range r.Obls {
				sc, ok := scn[o.Name]
				if !ok || ran[sc.Test] || o.Verdict != "unsat" || o.ExpectSat {
					continue
				}
				if _, isKnown := knownByObl[o.Name]; isKnown {
					continue
				}
				ran[sc.Test] = true
				so := w.scenarioReplay(o, scratch)
				if so == nil {
					continue
				}
				scenarioRuns = append(scenarioRuns, map[string]string{"obligation": o.Name, "scenario": sc.Test, "outcome": so.Detail})
				fmt.Printf("  scenario %s: %s\n", sc.Test, truncate(so.Detail, 160))
				if so.Confirmed {
					rf := &replayFile{Property: prop, Obligation: o.Name + "#scenario", Kind: "scenario", Function: r.Key, Position: o.Pos, Goal: o.GoalSrc,
						Verdict: "the obligation is discharged but its scenario fails on the real code (the contract or a trusted assumption misrepresents the code)", Replay: so, Confirmed: true}
					report(rf, "")
				}
			}
		}
	}
	// thorough tier, properties resting on the decimal model: the trusted sdk.Dec / sdk.Int prelude contracts are tested
	// against the real library on sampled and boundary operands
	if tier == "thorough" && decProps[prop] {
		if rc := runConformance(repo, verif, 1000, 30, par); rc != 0 {
			isBroken = "the trusted sdk.Dec / sdk.Int prelude contracts disagree with the real library (see CONFORMANCE-MISMATCH lines): proofs resting on them are void"
		}
	}
	// thorough tier, C03: the arithmetic content of the trusted axiom A-SUM (theory/mapsum.smt2) is re-checked in Lean
	if tier == "thorough" && prop == "C03" {
		leanSummary = runLeanLemmas(verif, []string{"ASum.lean"})
	}
	for _, m := range missing {
		report(&replayFile{Property: prop, Obligation: m + "#engine:missing", Kind: "engine", Verdict: "engine-error", Output: "obligation " + m + " is part of the committed baseline of this property but was not generated on this tree (contract removed or function renamed)"}, "no-failing-input-found")
	}
	if isBroken != "" {
		writeEvidence(evPath, prop, tier, seed, results, bySolver, knownHit, known, time.Since(start).Seconds(), violations, isBroken)
		return broken(isBroken)
	}
	ev := writeEvidence(evPath, prop, tier, seed, results, bySolver, knownHit, known, time.Since(start).Seconds(), violations, "")
	fmt.Printf("property=%s tier=%s functions=%d obligations=%d discharged=%d known_findings=%d vacuity_checks_ok=%d vacuity_undecided=%d violations=%d solver_time=%.1fs wall=%.1fs\n",
		prop, tier, len(results), claimed, discharged, len(knownHit), vacuityOK, vacuityUnknown, violations, solverTime, time.Since(start).Seconds())
	_ = ev
	if claimed == 0 {
		return broken("no obligation was generated for this property")
	}
	if violations > 0 {
		return 1
	}
	return 0
}

// checkBaseline compares the contract-derived obligations with the committed baseline.
func checkBaseline(verif, prop string, results []*FuncResult) []string {
	b, err := os.ReadFile(filepath.Join(verif, "props", "baseline.json"))
	if err != nil {
		return nil
	}
	var base map[string][]string
	if json.Unmarshal(b, &base) != nil {
		return nil
	}
	have := map[string]bool{}
	for _, r := range results {
		if r.Err != "" {
			// already reported as an engine failure of the whole function
			for _, want := range base[prop] {
				if strings.HasPrefix(want, r.Key+"#") {
					have[want] = true
				}
			}
		}
		for _, o := range r.Obls {
			have[o.Name] = true
		}
	}
	var missing []string
	for _, want := range base[prop] {
		if !have[want] {
			missing = append(missing, want)
		}
	}
	return missing
}

func writeEvidence(path, prop, tier string, seed int, results []*FuncResult, bySolver map[string]int, knownHit []string, known *KnownFile, wall float64, violations int, brokenMsg string) map[string]interface{} {
	var obligations, discharged int
	var samples []interface{}
	var funcs []interface{}
	trusted := map[string]bool{}
	assumes := map[string]bool{}
	unmod := map[string]bool{}
	var bounded []interface{}
	var perObl []interface{}
	var solverTime float64
	vacuity := map[string]int{}
	knownSet := map[string]bool{}
	for _, k := range knownHit {
		knownSet[k] = true
	}
	for _, r := range results {
		fe := map[string]interface{}{"function": r.Key, "obligations": len(r.Obls), "ssa_blocks": r.Blocks, "ssa_instructions": r.Instrs}
		if r.Err != "" {
			fe["engine_error"] = r.Err
		}
		if len(r.Inlined) > 0 {
			fe["inlined_callees"] = r.Inlined
		}
		if len(r.Notes) > 0 {
			fe["abstractions"] = r.Notes
		}
		funcs = append(funcs, fe)
		for _, t := range r.Trusted {
			trusted[t] = true
		}
		for _, t := range r.Assumes {
			assumes[t] = true
		}
		for _, t := range r.Unmodelled {
			unmod[t] = true
		}
		for _, o := range r.Obls {
			solverTime += o.Time
			if o.ExpectSat {
				vacuity[o.Verdict]++
				continue
			}
			if knownSet[o.Name] {
				continue
			}
			obligations++
			if o.Verdict == "unsat" {
				discharged++
			}
			pe := map[string]interface{}{"name": o.Name, "kind": o.Kind, "verdict": o.Verdict, "solver": o.Solver, "time_s": round3(o.Time)}
			if o.Bounded > 0 {
				pe["bounded"] = o.Bounded
				bounded = append(bounded, map[string]interface{}{"name": o.Name, "bound": o.Bounded})
			}
			perObl = append(perObl, pe)
			if len(samples) < 4 && o.Kind != "cover" && o.GoalSrc != "" {
				samples = append(samples, map[string]interface{}{"obligation": o.Name, "goal": o.GoalSrc, "at": o.Pos, "verdict": o.Verdict, "solver": o.Solver})
			}
		}
	}
	if len(samples) == 0 {
		samples = append(samples, map[string]interface{}{"note": "no obligation generated"})
	}
	tb := []string{}
	for t := range trusted {
		if strings.HasPrefix(t, "derived|") {
			tb = append(tb, "derived contract (no longer trusted on its own): "+shortKey(strings.TrimPrefix(t, "derived|")))
			continue
		}
		tb = append(tb, "trusted contract: "+shortKey(t))
	}
	sort.Strings(tb)
	var as []string
	for a := range assumes {
		as = append(as, a)
	}
	for u := range unmod {
		as = append(as, "unmodelled call (havoc of everything reachable): "+shortKey(u))
	}
	as = append(as,
		"A-ARITH: machine integers are mathematical integers with the type's range assumed for every value read; overflow is checked only in functions flagged `overflow`",
		"A-PTR: pointer parameters of a function under contract are non-nil and pairwise non-aliased",
		"A-DEP: cosmos-sdk / tendermint code meets the trusted prelude contracts listed under trusted_base",
		"termination is not verified",
	)
	sort.Strings(as)
	cov := map[string]interface{}{
		"obligations":              obligations,
		"discharged":               discharged,
		"checker_cmd":              fmt.Sprintf("/verif/bin/govc check -prop %s -tier %s  (VCs generated from go/ssa of /repo's working tree; each obligation raced on z3-new 5.1.0, z3 4.8.12, cvc5 1.0)", prop, tier),
		"trusted_base":             tb,
		"samples":                  samples,
		"functions_under_contract": funcs,
		"discharged_by_solver":     bySolver,
		"solver_time_s":            round3(solverTime),
		"per_obligation":           perObl,
		"vacuity_guards":           vacuity,
		"bounded_obligations":      bounded,
		"known_findings_hit":       knownHit,
		"integers":                 "mathematical (SMT Int) with machine ranges as assumptions",
	}
	if brokenMsg != "" {
		cov["broken"] = brokenMsg
	}
	if confSummary != nil {
		cov["prelude_conformance"] = confSummary
	}
	if leanSummary != nil {
		cov["lean_lemmas"] = leanSummary
	}
	if len(scenarioRuns) > 0 {
		cov["scenario_replays"] = scenarioRuns // thorough tier: scenarios of discharged obligations replayed on the real code (dynamic cross-check, not proof)
	}
	ev := map[string]interface{}{
		"property_id": prop,
		"tier":        tier,
		"seed":        seed,
		"level":       "proof",
		"coverage":    cov,
		"assumptions": as,
		"wall_s":      round3(wall),
		"violations":  violations,
	}
	b, _ := json.MarshalIndent(ev, "", " ")
	os.MkdirAll(filepath.Dir(path), 0o755)
	os.WriteFile(path, b, 0o644)
	return ev
}

func round3(f float64) float64 {
	return float64(int(f*1000+0.5)) / 1000
}

// leanSummary: outcome of re-checking the arithmetic behind trusted theory axioms in Lean (thorough tier)
var leanSummary map[string]interface{}

// runLeanLemmas type-checks /verif/lean/<file> with the installed Lean + Mathlib. The theorems state, over Finset and
// List sums, the facts the SMT theory assumes about its sum symbols; the identification of those symbols with the
// Lean sums (by their update equations) is not machine-checked. A failure does not make the property fail: it is
// recorded, and the axiom stays listed as trusted either way.
func runLeanLemmas(verif string, files []string) map[string]interface{} {
	out := map[string]interface{}{"back_end": "lean 4 + mathlib (installed toolchain)", "note": "arithmetic content of A-SUM only; the correspondence between msum2/lsum and these sums rests on their defining equations"}
	var rs []map[string]interface{}
	for _, f := range files {
		t0 := time.Now()
		cmd := exec.Command("lean", filepath.Join(verif, "lean", f))
		b, err := cmd.CombinedOutput()
		r := map[string]interface{}{"file": "lean/" + f, "accepted": err == nil && !strings.Contains(string(b), "error"), "time_s": time.Since(t0).Seconds()}
		if err != nil || strings.Contains(string(b), "error") {
			r["output"] = truncate(string(b), 800)
			fmt.Printf("lean: %s NOT accepted (A-SUM stays a trusted axiom): %s\n", f, truncate(string(b), 300))
		} else {
			fmt.Printf("lean: %s accepted in %.1fs (theorems list_sum_le_map_sum, map_sum_update)\n", f, time.Since(t0).Seconds())
		}
		rs = append(rs, r)
	}
	out["files"] = rs
	return out
}
