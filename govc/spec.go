package main

import (
	"fmt"
	"go/ast"
	"go/token"
	"go/types"
	"golang.org/x/tools/go/ssa"
	"strconv"
	"strings"
)

// Spec expressions: Go syntax (parsed by go/parser), typed by SMT sort.

type Env struct {
	g         *Gen
	vars      map[string]Val
	cellVars  map[string]*Cell // source-level names of mutable variables: the name denotes the content
	lets      map[string]ast.Expr
	cur       *State
	old       *State
	inOld     bool
	bound     map[string]Val
	loopEntry *State // state in which the loop under consideration was entered (for entry(...))
	resolving map[string]bool
	alias     map[string]string // contract identifier -> local of the code it is bound to (rename-tolerant binding, rename.go)
}

func (g *Gen) newEnv(cur, old *State) *Env {
	return &Env{g: g, vars: map[string]Val{}, cellVars: map[string]*Cell{}, lets: map[string]ast.Expr{}, cur: cur, old: old, bound: map[string]Val{}}
}

func (e *Env) state() *State {
	if e.inOld {
		return e.old
	}
	return e.cur
}

func (e *Env) trBool(x ast.Expr) string {
	v := e.tr(x)
	if v.Sort != "Bool" {
		e.g.fail("spec expression %s has sort %s, expected Bool", exprString(x), v.Sort)
	}
	return v.Term
}

func exprString(x ast.Expr) string {
	var b strings.Builder
	writeExpr(&b, x)
	return b.String()
}

func writeExpr(b *strings.Builder, x ast.Expr) {
	switch n := x.(type) {
	case *ast.Ident:
		b.WriteString(n.Name)
	case *ast.BasicLit:
		b.WriteString(n.Value)
	case *ast.ParenExpr:
		b.WriteString("(")
		writeExpr(b, n.X)
		b.WriteString(")")
	case *ast.UnaryExpr:
		b.WriteString(n.Op.String())
		writeExpr(b, n.X)
	case *ast.StarExpr:
		b.WriteString("*")
		writeExpr(b, n.X)
	case *ast.BinaryExpr:
		writeExpr(b, n.X)
		b.WriteString(" " + n.Op.String() + " ")
		writeExpr(b, n.Y)
	case *ast.SelectorExpr:
		writeExpr(b, n.X)
		b.WriteString("." + n.Sel.Name)
	case *ast.IndexExpr:
		writeExpr(b, n.X)
		b.WriteString("[")
		writeExpr(b, n.Index)
		b.WriteString("]")
	case *ast.CallExpr:
		writeExpr(b, n.Fun)
		b.WriteString("(")
		for i, a := range n.Args {
			if i > 0 {
				b.WriteString(", ")
			}
			writeExpr(b, a)
		}
		b.WriteString(")")
	default:
		fmt.Fprintf(b, "<%T>", x)
	}
}

// worldPath returns "W.a.b" if x is a selector chain rooted at W.
func worldPath(x ast.Expr) (string, bool) {
	switch n := x.(type) {
	case *ast.Ident:
		if n.Name == "W" || n.Name == "H" {
			return n.Name, true
		}
	case *ast.SelectorExpr:
		if p, ok := worldPath(n.X); ok {
			return p + "." + n.Sel.Name, true
		}
	}
	return "", false
}

func (e *Env) tr(x ast.Expr) Val {
	g := e.g
	switch n := x.(type) {
	case *ast.ParenExpr:
		return e.tr(n.X)
	case *ast.BasicLit:
		switch n.Kind {
		case token.INT:
			return Val{Sort: "Int", Term: n.Value}
		case token.STRING:
			s, err := strconv.Unquote(n.Value)
			if err != nil {
				g.fail("bad string literal %s", n.Value)
			}
			return Val{Sort: "Str", Term: g.strLit(s)}
		}
		g.fail("unsupported literal %s", n.Value)
	case *ast.Ident:
		return e.ident(n.Name)
	case *ast.UnaryExpr:
		v := e.tr(n.X)
		switch n.Op {
		case token.NOT:
			return Val{Sort: "Bool", Term: not(v.Term)}
		case token.SUB:
			return Val{Sort: "Int", Term: fmt.Sprintf("(- %s)", v.Term)}
		}
		g.fail("unsupported unary operator %s in spec", n.Op)
	case *ast.StarExpr:
		v := e.tr(n.X)
		return e.deref(v, exprString(n.X))
	case *ast.BinaryExpr:
		return e.binary(n)
	case *ast.SelectorExpr:
		if p, ok := worldPath(n); ok {
			if strings.HasPrefix(p, "H.") {
				name := strings.TrimPrefix(p, "H.")
				return Val{Sort: g.heapSort(name), Term: g.heapGet(e.state(), name)}
			}
			if wc, ok := g.w.world[p]; ok {
				return Val{Sort: g.heapSort(p), Term: g.heapGet(e.state(), p), GoT: nil}
				_ = wc
			}
			if px, ok2 := worldPath(n.X); !ok2 || px == "W" || px == "H" {
				g.fail("unknown world component %s", p)
			}
			// a field of a world component: W.storage.params.CollateralPrice
		}
		v := e.tr(n.X)
		return e.field(v, n.Sel.Name, exprString(n))
	case *ast.IndexExpr:
		base := e.tr(n.X)
		idx := e.tr(n.Index)
		return e.index(base, idx, exprString(n))
	case *ast.CallExpr:
		return e.call(n)
	}
	g.fail("unsupported spec expression %s (%T)", exprString(x), x)
	return Val{}
}

func (e *Env) ident(name string) Val {
	g := e.g
	switch name {
	case "true", "false":
		return Val{Sort: "Bool", Term: name}
	case "nil":
		return Val{Sort: "Nil", Term: "nil"}
	}
	if v, ok := e.bound[name]; ok {
		return v
	}
	if l, ok := e.lets[name]; ok {
		// names introduced by the contract take precedence over locals of the code
		return e.tr(l)
	}
	if c, ok := e.cellVars[name]; ok {
		return g.load(e.state(), &Addr{Cell: c}, c.goT)
	}
	if v, ok := e.vars[name]; ok {
		return v
	}
	if l, ok := e.lets[name]; ok {
		return e.tr(l)
	}
	if sig, ok := g.w.specFuncs[name]; ok && len(sig.Args) == 0 {
		g.useTheory(sig.Module)
		return Val{Sort: sig.Res, Term: name}
	}
	if a, ok := e.alias[name]; ok && a != name {
		return e.ident(a)
	}
	if a, ok := g.renames[name]; ok && a != name && !e.resolving[name] {
		if e.resolving == nil {
			e.resolving = map[string]bool{}
		}
		e.resolving[name] = true
		defer delete(e.resolving, name)
		return e.ident(a)
	}
	g.fail("unknown identifier %q in spec", name)
	return Val{}
}

func (e *Env) deref(v Val, what string) Val {
	g := e.g
	if v.Ptr != nil {
		var el types.Type
		if v.GoT != nil {
			if pt, ok := v.GoT.Underlying().(*types.Pointer); ok {
				el = pt.Elem()
			}
		}
		return g.load(e.state(), v.Ptr, el)
	}
	if v.GoT != nil {
		if pt, ok := v.GoT.Underlying().(*types.Pointer); ok && v.Term != "" {
			es := g.sorts.sortOf(pt.Elem())
			h := g.sorts.ptrHeap(es)
			return Val{Sort: es, Term: fmt.Sprintf("(select %s %s)", g.heapGet(e.state(), h), v.Term), GoT: pt.Elem()}
		}
	}
	g.fail("cannot dereference %s in spec", what)
	return Val{}
}

func (e *Env) field(v Val, name, what string) Val {
	g := e.g
	if v.Ptr != nil || (v.GoT != nil && isPointer(v.GoT) && v.Term != "") {
		v = e.deref(v, what)
	}
	// pseudo fields of slices
	if _, ok := g.sorts.sliceEl[v.Sort]; ok {
		switch name {
		case "arr", "off", "len", "cap":
			return Val{Sort: "Int", Term: fmt.Sprintf("(%s_%s %s)", name, v.Sort, v.Term)}
		}
	}
	info, ok := g.sorts.structs[v.Sort]
	if !ok {
		g.fail("%s: selector .%s on value of sort %s", what, name, v.Sort)
	}
	for _, f := range info.Fields {
		if f.Name == name {
			return Val{Sort: f.Sort, Term: fmt.Sprintf("(%s %s)", f.Sel, v.Term), GoT: f.GoType}
		}
	}
	g.fail("%s: sort %s has no field %s", what, v.Sort, name)
	return Val{}
}

func isPointer(t types.Type) bool {
	_, ok := t.Underlying().(*types.Pointer)
	return ok
}

func (e *Env) index(base, idx Val, what string) Val {
	g := e.g
	if base.Ptr != nil {
		base = e.deref(base, what)
	}
	if _, el, ok := arrayParts(base.Sort); ok {
		return Val{Sort: el, Term: fmt.Sprintf("(select %s %s)", base.Term, idx.Term)}
	}
	if el, ok := g.sorts.sliceEl[base.Sort]; ok {
		h := g.sorts.heapFor(base.Sort)
		s := base.Sort
		return Val{Sort: el, Term: fmt.Sprintf("(sget_%s %s %s %s)", s, g.heapGet(e.state(), h), base.Term, idx.Term), GoT: g.sorts.sliceGo[s]}
	}
	if kv, ok := g.sorts.mapKV[base.Sort]; ok {
		h, mv := g.sorts.mapHeap(base.Sort)
		cur := fmt.Sprintf("(select %s %s)", g.heapGet(e.state(), h), base.Term)
		z := g.sorts.zero(kv[1], nil)
		if z == "" {
			g.fail("%s: map value sort %s has no zero", what, kv[1])
		}
		return Val{Sort: kv[1], Term: fmt.Sprintf("(ite (select (mhas_%s %s) %s) (select (mval_%s %s) %s) %s)", mv, cur, idx.Term, mv, cur, idx.Term, z)}
	}
	if base.Sort == "Coins" {
		return Val{Sort: "Int", Term: fmt.Sprintf("(Coins_amt %s %s)", base.Term, idx.Term)}
	}
	g.fail("%s: cannot index a value of sort %s", what, base.Sort)
	return Val{}
}

func (e *Env) coerceNil(a, b *Val) {
	fix := func(n *Val, other Val) {
		if n.Sort != "Nil" {
			return
		}
		switch {
		case other.Sort == "Err":
			*n = Val{Sort: "Err", Term: "Err_nil"}
		case other.Sort == "Iface":
			*n = Val{Sort: "Iface", Term: "Iface_nil"}
		case other.Ptr != nil:
			*n = Val{Sort: "Int", Term: "0"}
		default:
			*n = Val{Sort: "Int", Term: "0"}
		}
	}
	fix(a, *b)
	fix(b, *a)
}

func (e *Env) binary(n *ast.BinaryExpr) Val {
	g := e.g
	a := e.tr(n.X)
	b := e.tr(n.Y)
	e.coerceNil(&a, &b)
	if a.Ptr != nil || b.Ptr != nil {
		// static pointer against nil
		if n.Op == token.EQL || n.Op == token.NEQ {
			res := "false"
			if a.Ptr != nil && b.Ptr != nil && sameAddr(a.Ptr, b.Ptr) {
				res = "true"
			}
			// pointer against nil: the nil flag of a nullable static pointer
			if a.Ptr != nil && b.Ptr == nil && a.NilFlag != "" {
				res = a.NilFlag
			}
			if b.Ptr != nil && a.Ptr == nil && b.NilFlag != "" {
				res = b.NilFlag
			}
			if n.Op == token.NEQ {
				res = not(res)
			}
			return Val{Sort: "Bool", Term: res}
		}
		g.fail("operator %s on pointers in spec %s", n.Op, exprString(n))
	}
	switch n.Op {
	case token.LAND:
		return Val{Sort: "Bool", Term: and(a.Term, b.Term)}
	case token.LOR:
		return Val{Sort: "Bool", Term: or(a.Term, b.Term)}
	case token.EQL, token.NEQ:
		if a.Sort != b.Sort && !(g.sortCompatible(a.Sort, b.Sort)) {
			g.fail("spec %s compares sort %s with %s", exprString(n), a.Sort, b.Sort)
		}
		t := fmt.Sprintf("(= %s %s)", a.Term, b.Term)
		if n.Op == token.NEQ {
			t = not(t)
		}
		return Val{Sort: "Bool", Term: t}
	case token.LSS, token.LEQ, token.GTR, token.GEQ:
		if a.Sort == "Str" {
			at, bt := a.Term, b.Term
			op := "str_lt"
			if n.Op == token.LEQ || n.Op == token.GEQ {
				op = "str_le"
			}
			if n.Op == token.GTR || n.Op == token.GEQ {
				at, bt = bt, at
			}
			return Val{Sort: "Bool", Term: fmt.Sprintf("(%s %s %s)", op, at, bt)}
		}
		return Val{Sort: "Bool", Term: fmt.Sprintf("(%s %s %s)", n.Op.String(), a.Term, b.Term)}
	case token.ADD:
		if a.Sort == "Str" {
			return Val{Sort: "Str", Term: fmt.Sprintf("(str_cat %s %s)", a.Term, b.Term)}
		}
		return Val{Sort: "Int", Term: fmt.Sprintf("(+ %s %s)", a.Term, b.Term)}
	case token.SUB:
		return Val{Sort: "Int", Term: fmt.Sprintf("(- %s %s)", a.Term, b.Term)}
	case token.MUL:
		return Val{Sort: "Int", Term: fmt.Sprintf("(* %s %s)", a.Term, b.Term)}
	case token.QUO:
		return Val{Sort: "Int", Term: fmt.Sprintf("(tquo %s %s)", a.Term, b.Term)}
	case token.REM:
		return Val{Sort: "Int", Term: fmt.Sprintf("(trem %s %s)", a.Term, b.Term)}
	}
	g.fail("unsupported operator %s in spec", n.Op)
	return Val{}
}

func (g *Gen) sortCompatible(a, b string) bool {
	ua, ok := g.sorts.aliases[a]
	if !ok {
		ua = a
	}
	ub, ok := g.sorts.aliases[b]
	if !ok {
		ub = b
	}
	return ua == ub
}

func (e *Env) call(n *ast.CallExpr) Val {
	g := e.g
	fn, ok := n.Fun.(*ast.Ident)
	if !ok {
		g.fail("unsupported call form %s in spec", exprString(n))
	}
	args := n.Args
	need := func(k int) {
		if len(args) != k {
			g.fail("%s expects %d arguments", fn.Name, k)
		}
	}
	switch fn.Name {
	case "old":
		need(1)
		save := e.inOld
		e.inOld = true
		v := e.tr(args[0])
		e.inOld = save
		return v
	case "gocall": // gocall("pkg/path.Func", args...): the value the code's own (pure, loop-free) helper computes, obtained by
		// symbolically executing its body on the given arguments. Used for store-key builders, so that contracts name keys
		// exactly as the code builds them.
		if len(args) < 1 {
			g.fail("gocall needs a function name")
		}
		name, _ := strconv.Unquote(args[0].(*ast.BasicLit).Value)
		i := strings.LastIndex(name, ".")
		if i < 0 {
			g.fail("gocall: %q is not pkg/path.Func", name)
		}
		pk := g.w.ssaPkgs[modPath+"/"+name[:i]]
		if pk == nil {
			g.fail("gocall: package %s is not loaded", name[:i])
		}
		fn := pk.Func(name[i+1:])
		if fn == nil || len(fn.Blocks) == 0 {
			g.fail("gocall: no function %s", name)
		}
		if hasLoops(fn) {
			g.fail("gocall: %s has loops", name)
		}
		var avs []Val
		for k, a := range args[1:] {
			v := e.tr(a)
			if v.Ptr != nil {
				v = e.deref(v, "gocall")
			}
			if k < len(fn.Params) {
				v.GoT = fn.Params[k].Type()
			}
			avs = append(avs, v)
		}
		if len(avs) != len(fn.Params) {
			g.fail("gocall %s: %d arguments for %d parameters", name, len(avs), len(fn.Params))
		}
		return g.gocallMacro(fn, name, avs, e.state())
	case "mhas", "mvals": // mhas(m) / mvals(m): the membership and value arrays of a Go map (arguments of theory functions over maps)
		need(1)
		m := e.tr(args[0])
		if m.Ptr != nil {
			m = e.deref(m, fn.Name)
		}
		kv, ok := g.sorts.mapKV[m.Sort]
		if !ok {
			g.fail("%s() on sort %s", fn.Name, m.Sort)
		}
		h, mv := g.sorts.mapHeap(m.Sort)
		if fn.Name == "mhas" {
			return Val{Sort: "(Array " + kv[0] + " Bool)", Term: fmt.Sprintf("(mhas_%s (select %s %s))", mv, g.heapGet(e.state(), h), m.Term)}
		}
		return Val{Sort: "(Array " + kv[0] + " " + kv[1] + ")", Term: fmt.Sprintf("(mval_%s (select %s %s))", mv, g.heapGet(e.state(), h), m.Term)}
	case "entry": // entry(e): the value of e when the current loop was entered (loop invariants only);
		// entry(N, e): the value of e when loop N of the function (a loop not nested in another) was entered (postconditions, hints)
		if len(args) == 2 {
			lit, ok := args[0].(*ast.BasicLit)
			if !ok {
				g.fail("entry(N, e): N must be a loop ordinal")
			}
			ord, _ := strconv.Atoi(lit.Value)
			var st *State
			if g.topFrame != nil {
				for h, o := range g.topFrame.loopOrd {
					if o == ord {
						st = g.topFrame.loopEntry[h]
					}
				}
			}
			if st == nil {
				g.fail("entry(%d, ...): no such loop, or it has not been entered on the way here", ord)
			}
			saveCur, saveOld := e.cur, e.inOld
			e.cur, e.inOld = st, false
			v := e.tr(args[1])
			e.cur, e.inOld = saveCur, saveOld
			return v
		}
		need(1)
		if e.loopEntry == nil {
			g.fail("entry(...) is only meaningful in a loop invariant")
		}
		saveCur, saveOld := e.cur, e.inOld
		e.cur, e.inOld = e.loopEntry, false
		v := e.tr(args[0])
		e.cur, e.inOld = saveCur, saveOld
		return v
	case "implies":
		need(2)
		return Val{Sort: "Bool", Term: implies(e.trBool(args[0]), e.trBool(args[1]))}
	case "iff":
		need(2)
		return Val{Sort: "Bool", Term: fmt.Sprintf("(= %s %s)", e.trBool(args[0]), e.trBool(args[1]))}
	case "ite":
		need(3)
		c := e.trBool(args[0])
		a := e.tr(args[1])
		b := e.tr(args[2])
		e.coerceNil(&a, &b)
		return Val{Sort: a.Sort, Term: fmt.Sprintf("(ite %s %s %s)", c, a.Term, b.Term), GoT: a.GoT}
	case "len":
		need(1)
		v := e.tr(args[0])
		if v.Ptr != nil {
			v = e.deref(v, "len")
		}
		if v.Sort == "Str" {
			return Val{Sort: "Int", Term: fmt.Sprintf("(str_len %s)", v.Term)}
		}
		if _, ok := g.sorts.sliceEl[v.Sort]; ok {
			return Val{Sort: "Int", Term: fmt.Sprintf("(len_%s %s)", v.Sort, v.Term)}
		}
		if _, ok := g.sorts.mapKV[v.Sort]; ok {
			h, mv := g.sorts.mapHeap(v.Sort)
			return Val{Sort: "Int", Term: fmt.Sprintf("(mcnt_%s (select %s %s))", mv, g.heapGet(e.state(), h), v.Term)}
		}
		if v.Sort == "Coins" {
			return Val{Sort: "Int", Term: fmt.Sprintf("(Coins_len %s)", v.Term)}
		}
		g.fail("len of sort %s", v.Sort)
	case "has": // has(m, k): map membership
		need(2)
		m := e.tr(args[0])
		if m.Ptr != nil {
			m = e.deref(m, "has")
		}
		k := e.tr(args[1])
		if _, ok := g.sorts.mapKV[m.Sort]; ok {
			h, mv := g.sorts.mapHeap(m.Sort)
			return Val{Sort: "Bool", Term: fmt.Sprintf("(select (mhas_%s (select %s %s)) %s)", mv, g.heapGet(e.state(), h), m.Term, k.Term)}
		}
		g.fail("has() on sort %s", m.Sort)
	case "present":
		need(1)
		v := e.tr(args[0])
		if _, ok := optionElem(v.Sort); !ok {
			g.fail("present() on sort %s", v.Sort)
		}
		return Val{Sort: "Bool", Term: fmt.Sprintf("((_ is some_%s) %s)", g.sorts.ensureOption(optEl(v.Sort)), v.Term)}
	case "val":
		need(1)
		v := e.tr(args[0])
		el, ok := optionElem(v.Sort)
		if !ok {
			g.fail("val() on sort %s", v.Sort)
		}
		return Val{Sort: el, Term: fmt.Sprintf("(val_%s %s)", g.sorts.ensureOption(el), v.Term)}
	case "some":
		need(1)
		v := e.tr(args[0])
		return Val{Sort: "(Option " + v.Sort + ")", Term: fmt.Sprintf("(some_%s %s)", g.sorts.ensureOption(v.Sort), v.Term)}
	case "upd": // upd(table, k, v) / upd(table, k1, k2, v): table with an entry set to some(v)
		if len(args) < 3 {
			g.fail("upd(table, keys..., value)")
		}
		t := e.tr(args[0])
		var keys []Val
		for _, a := range args[1 : len(args)-1] {
			keys = append(keys, e.tr(a))
		}
		v := e.tr(args[len(args)-1])
		return e.storeNested(t, keys, func(elSort string) string {
			if oe, ok := optionElem(elSort); ok {
				return fmt.Sprintf("(some_%s %s)", g.sorts.ensureOption(oe), v.Term)
			}
			return v.Term
		})
	case "del":
		if len(args) < 2 {
			g.fail("del(table, keys...)")
		}
		t := e.tr(args[0])
		var keys []Val
		for _, a := range args[1:] {
			keys = append(keys, e.tr(a))
		}
		return e.storeNested(t, keys, func(elSort string) string {
			oe, ok := optionElem(elSort)
			if !ok {
				g.fail("del() on a table whose entries are %s", elSort)
			}
			return "none_" + g.sorts.ensureOption(oe)
		})
	case "setf": // setf(structValue, Field, newValue)
		need(3)
		v := e.tr(args[0])
		if v.Ptr != nil {
			v = e.deref(v, "setf")
		}
		fname, ok := args[1].(*ast.Ident)
		if !ok {
			g.fail("setf(value, FieldName, newValue)")
		}
		nv := e.tr(args[2])
		info, ok := g.sorts.structs[v.Sort]
		if !ok {
			g.fail("setf on sort %s", v.Sort)
		}
		for i, f := range info.Fields {
			if f.Name == fname.Name {
				if nv.Sort == "Nil" {
					nv = Val{Sort: f.Sort, Term: g.sorts.zero(f.Sort, f.GoType)}
				}
				return Val{Sort: v.Sort, Term: g.updatePath(v.Term, []pathStep{{v.Sort, i}}, nv.Term), GoT: v.GoT}
			}
		}
		g.fail("setf: sort %s has no field %s", v.Sort, fname.Name)
	case "forall", "exists":
		// forall(i, lo, hi, body)  |  forall(x, "Sort", body)
		if len(args) == 4 {
			id := args[0].(*ast.Ident).Name
			lo := e.tr(args[1])
			hi := e.tr(args[2])
			save, had := e.bound[id]
			e.bound[id] = Val{Sort: "Int", Term: id + "!q"}
			body := e.trBool(args[3])
			if had {
				e.bound[id] = save
			} else {
				delete(e.bound, id)
			}
			rng := fmt.Sprintf("(and (<= %s %s!q) (< %s!q %s))", lo.Term, id, id, hi.Term)
			if fn.Name == "forall" {
				return Val{Sort: "Bool", Term: fmt.Sprintf("(forall ((%s!q Int)) (=> %s %s))", id, rng, body)}
			}
			return Val{Sort: "Bool", Term: fmt.Sprintf("(exists ((%s!q Int)) (and %s %s))", id, rng, body)}
		}
		need(3)
		id := args[0].(*ast.Ident).Name
		sl, ok := args[1].(*ast.BasicLit)
		if !ok {
			g.fail("forall(x, \"Sort\", body)")
		}
		srt, _ := strconv.Unquote(sl.Value)
		g.ensureSortNames(srt)
		save, had := e.bound[id]
		e.bound[id] = Val{Sort: srt, Term: id + "!q"}
		body := e.trBool(args[2])
		if had {
			e.bound[id] = save
		} else {
			delete(e.bound, id)
		}
		q := "forall"
		if fn.Name == "exists" {
			q = "exists"
		}
		return Val{Sort: "Bool", Term: fmt.Sprintf("(%s ((%s!q %s)) %s)", q, id, srt, body)}
	case "smt": // smt("Sort", "raw term with $1 $2 ...", args...)
		if len(args) < 2 {
			g.fail("smt(sort, term, args...)")
		}
		srt, _ := strconv.Unquote(args[0].(*ast.BasicLit).Value)
		raw, _ := strconv.Unquote(args[1].(*ast.BasicLit).Value)
		for i := len(args) - 1; i >= 2; i-- {
			v := e.tr(args[i])
			raw = strings.ReplaceAll(raw, fmt.Sprintf("$%d", i-1), v.Term)
		}
		g.ensureSortNames(srt + " " + raw)
		return Val{Sort: srt, Term: raw}
	case "sprintf": // sprintf("format", args...): the same uninterpreted function the engine uses for fmt.Sprintf
		if len(args) < 1 {
			g.fail("sprintf(format, args...)")
		}
		format, _ := strconv.Unquote(args[0].(*ast.BasicLit).Value)
		if g.concrete {
			g.fail("sprintf() in specs is only available in abstract string mode; write the concatenation instead")
		}
		var sorts, terms []string
		for _, a := range args[1:] {
			v := e.tr(a)
			sorts = append(sorts, v.Sort)
			terms = append(terms, v.Term)
		}
		name := g.uf("sprintf_"+mangle(format), sorts, "Str")
		if len(terms) == 0 {
			return Val{Sort: "Str", Term: name}
		}
		return Val{Sort: "Str", Term: fmt.Sprintf("(%s %s)", name, strings.Join(terms, " "))}
	case "rangeindexof": // rangeindexof(k): the position of key k in the enumeration of the function's store iterator
		need(1)
		inv, ok := e.vars["rangeinv"]
		if !ok {
			g.fail("rangeindexof() without a store iterator in scope")
		}
		k := e.tr(args[0])
		return Val{Sort: "Int", Term: fmt.Sprintf("(%s %s)", inv.Term, k.Term)}
	case "rangekey": // rangekey(j): the j-th key of the map enumeration of the enclosing map-range loop
		need(1)
		en, ok := e.vars["rangekeys"]
		if !ok {
			g.fail("rangekey() outside a map range loop")
		}
		j := e.tr(args[0])
		return Val{Sort: "Str", Term: fmt.Sprintf("(%s %s)", en.Term, j.Term)}
	case "fresh": // fresh(s): the slice/map was allocated by the callee (not aliased with anything that existed before)
		need(1)
		v := e.tr(args[0])
		if v.Ptr != nil {
			v = e.deref(v, "fresh")
		}
		oldA := g.heapGet(e.old, "$alloc")
		curA := g.heapGet(e.cur, "$alloc")
		loc := v.Term
		if _, ok := g.sorts.sliceEl[v.Sort]; ok {
			loc = fmt.Sprintf("(arr_%s %s)", v.Sort, v.Term)
		}
		return Val{Sort: "Bool", Term: fmt.Sprintf("(and (> %s %s) (<= %s %s))", loc, oldA, loc, curA)}
	case "marshal": // marshal(x): the protobuf encoding of a struct value (same uninterpreted function as the codec model)
		need(1)
		v := e.tr(args[0])
		if v.Ptr != nil {
			v = e.deref(v, "marshal")
		}
		g.useTheory("kv")
		m := "marshal_" + mangle(v.Sort)
		g.declareCodec(v.Sort)
		return Val{Sort: "Str", Term: fmt.Sprintf("(%s %s)", m, v.Term)}
	case "unmarshal": // unmarshal("Sort", bytes)
		need(2)
		srt, _ := strconv.Unquote(args[0].(*ast.BasicLit).Value)
		g.ensureSortNames(srt)
		b := e.tr(args[1])
		g.useTheory("kv")
		m := "marshal_" + mangle(srt)
		g.declareCodec(srt)
		return Val{Sort: srt, Term: fmt.Sprintf("(un%s %s)", m, b.Term)}
	case "jsonok", "jsondec": // jsonok("Sort", bytes) / jsondec("Sort", bytes): the json.Unmarshal model (A-DEP)
		need(2)
		srt, _ := strconv.Unquote(args[0].(*ast.BasicLit).Value)
		g.ensureSortNames(srt)
		b := e.tr(args[1])
		okf := g.uf("json_ok_"+mangle(srt), []string{"Str"}, "Bool")
		decf := g.uf("json_dec_"+mangle(srt), []string{"Str"}, srt)
		if fn.Name == "jsonok" {
			return Val{Sort: "Bool", Term: fmt.Sprintf("(%s %s)", okf, b.Term)}
		}
		return Val{Sort: srt, Term: fmt.Sprintf("(%s %s)", decf, b.Term)}
	case "jhas", "jget", "jok": // JSON access map stored as text: jhas(text, id), jget(text, id), jok(text)
		b := e.tr(args[0])
		g.sorts.mapHeap(g.sorts.ensureMapSort("Str", "Str"))
		_, dec, okf := g.jsonMapFuncs()
		switch fn.Name {
		case "jok":
			need(1)
			return Val{Sort: "Bool", Term: fmt.Sprintf("(%s %s)", okf, b.Term)}
		case "jhas":
			need(2)
			k := e.tr(args[1])
			return Val{Sort: "Bool", Term: fmt.Sprintf("(select (mhas_MapVal_Str_Str (%s %s)) %s)", dec, b.Term, k.Term)}
		default:
			need(2)
			k := e.tr(args[1])
			// Go lookup semantics: the zero value for an absent key
			return Val{Sort: "Str", Term: fmt.Sprintf("(ite (select (mhas_MapVal_Str_Str (%s %s)) %s) (select (mval_MapVal_Str_Str (%s %s)) %s) %s)", dec, b.Term, k.Term, dec, b.Term, k.Term, strLit(""))}
		}
	case "zero": // zero("Sort")
		need(1)
		srt, _ := strconv.Unquote(args[0].(*ast.BasicLit).Value)
		g.ensureSortNames(srt)
		z := g.sorts.zero(srt, nil)
		if z == "" {
			g.fail("sort %s has no zero value", srt)
		}
		return Val{Sort: srt, Term: z}
	}
	// theory function
	sig, ok := g.w.specFuncs[fn.Name]
	if !ok {
		g.fail("unknown spec function %q", fn.Name)
	}
	g.useTheory(sig.Module)
	if len(sig.Args) != len(args) {
		g.fail("spec function %s expects %d arguments, got %d", fn.Name, len(sig.Args), len(args))
	}
	parts := []string{fn.Name}
	for i, a := range args {
		v := e.tr(a)
		if v.Ptr != nil {
			v = e.deref(v, fn.Name)
		}
		if v.Sort == "Nil" {
			switch sig.Args[i] {
			case "Err":
				v = Val{Sort: "Err", Term: "Err_nil"}
			default:
				v = Val{Sort: "Int", Term: "0"}
			}
		}
		if v.Sort != sig.Args[i] && !g.sortCompatible(v.Sort, sig.Args[i]) {
			g.fail("spec function %s: argument %d has sort %s, expected %s (in %s)", fn.Name, i, v.Sort, sig.Args[i], exprString(n))
		}
		parts = append(parts, v.Term)
	}
	if len(parts) == 1 {
		return Val{Sort: sig.Res, Term: fn.Name}
	}
	return Val{Sort: sig.Res, Term: "(" + strings.Join(parts, " ") + ")"}
}

func (e *Env) storeNested(t Val, keys []Val, leaf func(elSort string) string) Val {
	g := e.g
	var rec func(term, srt string, ks []Val) string
	rec = func(term, srt string, ks []Val) string {
		_, el, ok := arrayParts(srt)
		if !ok {
			g.fail("upd/del on a non-array sort %s", srt)
		}
		if len(ks) == 1 {
			return fmt.Sprintf("(store %s %s %s)", term, ks[0].Term, leaf(el))
		}
		inner := rec(fmt.Sprintf("(select %s %s)", term, ks[0].Term), el, ks[1:])
		return fmt.Sprintf("(store %s %s %s)", term, ks[0].Term, inner)
	}
	return Val{Sort: t.Sort, Term: rec(t.Term, t.Sort, keys)}
}

func optEl(sort string) string {
	el, _ := optionElem(sort)
	return el
}

// gocallMacro turns a pure, loop-free helper of the repository into an SMT function: the helper is executed
// symbolically once on placeholder arguments, the definitions that run emitted are folded into one closed term over
// the placeholders, and (define-fun gc_<helper> ...) is emitted. A call then is an ordinary application, so that the
// arguments may mention bound variables of a quantifier in the contract.
func (g *Gen) gocallMacro(fn *ssa.Function, name string, avs []Val, st *State) Val {
	if g.gocallFns == nil {
		g.gocallFns = map[string][2]string{}
	}
	key := name
	for _, a := range avs {
		key += "|" + a.Sort
	}
	mac, ok := g.gocallFns[key]
	if !ok {
		mark := len(g.buf)
		var ph []Val
		var params []string
		for k, a := range avs {
			pn := fmt.Sprintf("gcp!%s!%d", mangle(name), k)
			ph = append(ph, Val{Sort: a.Sort, Term: pn, GoT: a.GoT})
			params = append(params, fmt.Sprintf("(%s %s)", pn, monoOptions(a.Sort)))
		}
		res, _, _ := g.runFunc(fn, ph, nil, st.clone(), "true", 1, nil, false)
		if len(res) != 1 || res[0].Term == "" {
			g.fail("gocall %s: not a single plain result", name)
		}
		// fold the definitions emitted by the run (declare-const N S / assert (= N E)) into the result term
		declared := map[string]bool{}
		defs := map[string]string{}
		var order []string
		for _, l := range g.buf[mark:] {
			if strings.HasPrefix(l, "(declare-const ") {
				f := strings.Fields(l[len("(declare-const "):])
				declared[f[0]] = true
				continue
			}
			if strings.HasPrefix(l, "(assert (= ") {
				rest := l[len("(assert (= ") : len(l)-2]
				if i := strings.Index(rest, " "); i > 0 && declared[rest[:i]] {
					defs[rest[:i]] = rest[i+1:]
					order = append(order, rest[:i])
				}
			}
			// anything else emitted by the run is an assumption about the placeholders (type ranges): dropped
		}
		for n := range declared {
			delete(g.declared, n)
		}
		g.buf = g.buf[:mark]
		term := res[0].Term
		for i := len(order) - 1; i >= 0; i-- {
			term = replaceSymbol(term, order[i], defs[order[i]])
		}
		for n := range declared {
			if containsSymbol(term, n) {
				g.fail("gocall %s: the result depends on a value the helper does not compute from its arguments (%s)", name, n)
			}
		}
		fnName := fmt.Sprintf("gc_%s_%d", mangle(name), len(g.gocallFns))
		g.emit(fmt.Sprintf("(define-fun %s (%s) %s %s)", fnName, strings.Join(params, " "), monoOptions(res[0].Sort), term))
		mac = [2]string{fnName, res[0].Sort}
		g.gocallFns[key] = mac
	}
	var as []string
	for _, a := range avs {
		as = append(as, a.Term)
	}
	if len(as) == 0 {
		return Val{Sort: mac[1], Term: mac[0]}
	}
	return Val{Sort: mac[1], Term: fmt.Sprintf("(%s %s)", mac[0], strings.Join(as, " "))}
}

func isSymChar(c byte) bool {
	return c != '(' && c != ')' && c != ' ' && c != '\n' && c != '\t' && c != '"'
}

// replaceSymbol replaces whole-symbol occurrences of sym in an S-expression text (outside string literals)
func replaceSymbol(term, sym, by string) string {
	var b strings.Builder
	inStr := false
	for i := 0; i < len(term); {
		c := term[i]
		if c == '"' {
			inStr = !inStr
			b.WriteByte(c)
			i++
			continue
		}
		if !inStr && strings.HasPrefix(term[i:], sym) && (i == 0 || !isSymChar(term[i-1])) && (i+len(sym) == len(term) || !isSymChar(term[i+len(sym)])) {
			b.WriteString(by)
			i += len(sym)
			continue
		}
		b.WriteByte(c)
		i++
	}
	return b.String()
}

func containsSymbol(term, sym string) bool {
	return replaceSymbol(term, sym, "\x00") != term
}
