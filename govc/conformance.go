package main

import (
	"encoding/json"
	"fmt"
	"os"
	"os/exec"
	"path/filepath"
	"regexp"
	"strings"
)

// Prelude conformance (bounded): the real dependency functions are run on sampled operands (replay/conformance_*_test.go,
// injected with go test -overlay) and every observed (arguments, result) triple is checked against the trusted
// prelude contract of that function: the contract's ensures, instantiated with the observed literals, must be valid.
// This is a test of an assumption (A-DEP), reported as bounded evidence, never counted as proof.

var confArgRe = regexp.MustCompile(`\b(arg0|arg1|result0|result)\b`)

// confSummary: what the last conformance run covered (recorded in the evidence of thorough runs)
var confSummary map[string]interface{}

func runConformance(repo, verif string, n int, timeout, par int) int {
	scratch := filepath.Join("/var/tmp/verif-scratch", fmt.Sprintf("conf-%d", os.Getpid()))
	os.MkdirAll(scratch, 0o755)
	defer os.RemoveAll(scratch)
	target := filepath.Join(repo, "x/jklmint/utils", "zz_verif_conformance_test.go")
	ov, _ := json.Marshal(map[string]interface{}{"Replace": map[string]string{target: filepath.Join(verif, "replay", "conformance_dec_test.go")}})
	ovFile := filepath.Join(scratch, "overlay.json")
	os.WriteFile(ovFile, ov, 0o644)
	cmd := exec.Command("go", "test", "-overlay", ovFile, "-vet=off", "-timeout", "300s", "-count=1", "-v", "-run", "^TestVerifPreludeConformance$", "./x/jklmint/utils")
	cmd.Dir = repo
	cmd.Env = append(os.Environ(), "GOFLAGS=-mod=mod", "GOPROXY=off", "GOSUMDB=off", "GOTOOLCHAIN=local", fmt.Sprintf("VERIF_CONF_N=%d", n))
	out, err := cmd.CombinedOutput()
	if err != nil && !strings.Contains(string(out), "CONF|") {
		fmt.Printf("conformance: harness failed: %v\n%s\n", err, truncate(string(out), 2000))
		return 2
	}
	w, err := loadWorkspace(repo, verif, []string{"./x/jklmint/utils"})
	if err != nil {
		fmt.Println("conformance: error:", err)
		return 2
	}
	// one lemma per prelude function, one `prove` per observed triple
	type group struct {
		ct    *Contract
		cases []string
	}
	groups := map[string]*group{}
	var order []string
	total := 0
	var axioms []map[string]interface{}
	axiomBad := 0
	lit := func(s string) string {
		if s == "true" || s == "false" {
			return s
		}
		if strings.HasPrefix(s, "-") {
			return "(0 - " + s[1:] + ")"
		}
		return s
	}
	for _, l := range strings.Split(string(out), "\n") {
		l = strings.TrimSpace(l)
		if strings.HasPrefix(l, "AXIOM|") {
			// a theory axiom sampled on the real code: name | assumed (yes/no/info) | cases | counterexamples
			f := strings.Split(l, "|")
			if len(f) == 5 {
				ax := map[string]interface{}{"axiom": f[1], "assumed_by_the_theory": f[2], "cases": f[3], "counterexamples": f[4]}
				axioms = append(axioms, ax)
				if f[2] == "yes" && f[4] != "0" {
					fmt.Printf("CONFORMANCE-MISMATCH theory axiom: %s (%s counterexamples in %s cases)\n", f[1], f[4], f[3])
					axiomBad++
				}
				if f[2] == "no" && f[4] == "0" {
					fmt.Printf("conformance: note: the axiom not assumed (%s) met no counterexample in %s cases\n", f[1], f[3])
				}
			}
			continue
		}
		if !strings.HasPrefix(l, "CONF|") {
			continue
		}
		f := strings.Split(l, "|")
		if len(f) != 5 {
			continue
		}
		ct := w.prelude[f[1]]
		if ct == nil || len(ct.Ensures) == 0 {
			fmt.Printf("conformance: no prelude contract with ensures for %s\n", f[1])
			return 2
		}
		gr := groups[f[1]]
		if gr == nil {
			gr = &group{ct: ct}
			groups[f[1]] = gr
			order = append(order, f[1])
		}
		for _, e := range ct.Ensures {
			src := confArgRe.ReplaceAllStringFunc(e.Src, func(m string) string {
				switch m {
				case "arg0":
					return lit(f[2])
				case "arg1":
					return lit(f[3])
				default:
					return lit(f[4])
				}
			})
			gr.cases = append(gr.cases, src)
			total++
		}
	}
	if total == 0 {
		fmt.Println("conformance: the harness produced no cases")
		return 2
	}
	var results []*FuncResult
	for gi, key := range order {
		gr := groups[key]
		var sb strings.Builder
		fmt.Fprintf(&sb, "//@ lemma conformance_%d\n//@   props CONF\n", gi)
		if len(gr.ct.Uses) > 0 {
			fmt.Fprintf(&sb, "//@   uses %s\n", strings.Join(gr.ct.Uses, " "))
		}
		// cases are batched: one obligation per 25 observed triples
		for i := 0; i < len(gr.cases); i += 25 {
			j := i + 25
			if j > len(gr.cases) {
				j = len(gr.cases)
			}
			fmt.Fprintf(&sb, "//@   prove [%s_cases_%d_to_%d ground] (%s)\n", mangle(shortKey(key)), i, j-1, strings.Join(gr.cases[i:j], ") && ("))
		}
		tmp := filepath.Join(scratch, fmt.Sprintf("conf_%d.go", gi))
		os.WriteFile(tmp, []byte("package conf\n\n"+sb.String()), 0o644)
		cs, err := parseContractFile(tmp, modPath+"/x/jklmint/utils")
		if err != nil || len(cs) != 1 {
			fmt.Println("conformance: cannot build the check for", key, err)
			return 2
		}
		r := w.verifyFunction(modPath+"/x/jklmint/utils::"+cs[0].Key, cs[0])
		r.Key = "prelude " + shortKey(key)
		results = append(results, r)
	}
	outDir := filepath.Join(verif, "out", "conformance")
	os.RemoveAll(outDir)
	solveAll(outDir, results, timeout, par)
	bad := axiomBad
	obls := 0
	for _, r := range results {
		if r.Err != "" {
			fmt.Printf("conformance: %s: %s\n", r.Key, r.Err)
			bad++
		}
		for _, o := range r.Obls {
			if o.ExpectSat {
				continue
			}
			obls++
			if o.Verdict != "unsat" {
				bad++
				fmt.Printf("CONFORMANCE-MISMATCH %s: %s (%s)\n", r.Key, o.Label, o.Verdict)
			}
		}
	}
	confSummary = map[string]interface{}{"level": "bounded test of the trusted sdk.Dec / sdk.Int prelude contracts (A-DEP), not proof", "dependency_functions": len(order), "observed_results": total, "solver_queries": obls, "mismatches": bad, "operands_per_function": n, "theory_axioms_sampled": axioms}
	fmt.Printf("conformance: %d observed results of %d dependency functions checked against their prelude contracts in %d solver queries, %d mismatches\n", total, len(order), obls, bad)
	for _, ax := range axioms {
		fmt.Printf("conformance: theory axiom sampled on the real decoder: %s  [assumed: %s]  %s counterexamples in %s cases\n", ax["axiom"], ax["assumed_by_the_theory"], ax["counterexamples"], ax["cases"])
	}
	if bad > 0 {
		return 1
	}
	return 0
}
