package main

import (
	"bytes"
	"context"
	"fmt"
	"os"
	"os/exec"
	"path/filepath"
	"regexp"
	"strings"
	"sync"
	"time"
)

type solverSpec struct {
	name string
	args func(file string, timeoutS int, concrete bool) []string
}

var solvers = []solverSpec{
	{"z3-new", func(f string, t int, c bool) []string { return []string{"z3-new", fmt.Sprintf("-T:%d", t), f} }},
	{"z3", func(f string, t int, c bool) []string { return []string{"z3", fmt.Sprintf("-T:%d", t), f} }},
	{"cvc5", func(f string, t int, c bool) []string {
		a := []string{"cvc5", fmt.Sprintf("--tlimit=%d", t*1000), "--produce-models"}
		if c {
			a = append(a, "--strings-exp")
		}
		return append(a, f)
	}},
}

const maxVCBytes = 3 << 20

func writeQuery(dir string, idx int, prelude string, body []string, o *Obligation) (string, error) {
	var b strings.Builder
	b.WriteString("; obligation " + o.Name + "\n")
	if o.GoalSrc != "" {
		b.WriteString("; goal: " + strings.ReplaceAll(o.GoalSrc, "\n", " ") + "\n")
	}
	b.WriteString("(set-option :produce-models true)\n(set-logic ALL)\n")
	b.WriteString(prelude)
	n := o.BufLen
	if n > len(body) {
		n = len(body)
	}
	for _, l := range body[:n] {
		b.WriteString(l)
		b.WriteString("\n")
	}
	if o.Guard != "" && o.Guard != "true" {
		fmt.Fprintf(&b, "(assert %s)\n", monoOptions(o.Guard))
	}
	fmt.Fprintf(&b, "(assert (not %s))\n", monoOptions(o.Goal))
	b.WriteString("(check-sat)\n(get-model)\n")
	if b.Len() > maxVCBytes {
		return "", fmt.Errorf("verification condition of %d bytes exceeds the cap of %d", b.Len(), maxVCBytes)
	}
	name := fmt.Sprintf("%04d_%s.smt2", idx, mangle(truncate(o.Name, 120)))
	p := filepath.Join(dir, name)
	return p, os.WriteFile(p, []byte(b.String()), 0o644)
}

// race runs all solvers on the file and returns the first decisive answer.
func race(file string, timeoutS int, concrete bool) (verdict, solver, output string, secs float64) {
	ctx, cancel := context.WithCancel(context.Background())
	defer cancel()
	type ans struct {
		verdict, solver, out string
		secs                 float64
	}
	ch := make(chan ans, len(solvers))
	start := time.Now()
	n := 0
	for _, s := range solvers {
		if _, err := exec.LookPath(s.args(file, timeoutS, concrete)[0]); err != nil {
			continue
		}
		n++
		go func(s solverSpec) {
			a := s.args(file, timeoutS, concrete)
			cctx, ccancel := context.WithTimeout(ctx, time.Duration(timeoutS+5)*time.Second)
			defer ccancel()
			cmd := exec.CommandContext(cctx, a[0], a[1:]...)
			var out bytes.Buffer
			cmd.Stdout = &out
			cmd.Stderr = &out
			_ = cmd.Run()
			txt := out.String()
			first := strings.TrimSpace(strings.SplitN(txt, "\n", 2)[0])
			// a solver that reported an error before its verdict answered a different problem
			for _, l := range strings.Split(txt, "\n") {
				l = strings.TrimSpace(l)
				if l == "sat" || l == "unsat" || l == "unknown" || l == "timeout" {
					break
				}
				if strings.HasPrefix(l, "(error") {
					first = l
					break
				}
			}
			v := "unknown"
			switch first {
			case "unsat":
				v = "unsat"
			case "sat":
				v = "sat"
			case "unknown", "timeout":
				v = "unknown"
			default:
				if strings.Contains(first, "error") || strings.Contains(first, "Error") {
					v = "error"
				}
			}
			ch <- ans{v, s.name, txt, time.Since(start).Seconds()}
		}(s)
	}
	var last ans
	var errs []string
	for i := 0; i < n; i++ {
		a := <-ch
		if a.verdict == "unsat" || a.verdict == "sat" {
			cancel()
			return a.verdict, a.solver, a.out, a.secs
		}
		if a.verdict == "error" {
			errs = append(errs, a.solver+": "+truncate(a.out, 400))
		}
		last = a
	}
	if len(errs) == n && n > 0 {
		return "error", "all", strings.Join(errs, "\n"), time.Since(start).Seconds()
	}
	out := last.out
	if len(errs) > 0 {
		out = strings.Join(errs, "\n") + "\n" + out
	}
	return "unknown", "all", out, time.Since(start).Seconds()
}

func solveAll(dir string, results []*FuncResult, timeoutS int, par int) {
	os.MkdirAll(dir, 0o755)
	type job struct {
		o       *Obligation
		prelude string
		body    []string
		idx     int
	}
	var jobs []job
	idx := 0
	for _, r := range results {
		for _, o := range r.Obls {
			if o.Kind == "structural" {
				continue
			}
			idx++
			jobs = append(jobs, job{o, r.Prelude, r.Body, idx})
		}
	}
	var wg sync.WaitGroup
	sem := make(chan struct{}, par)
	for _, j := range jobs {
		wg.Add(1)
		sem <- struct{}{}
		go func(j job) {
			defer wg.Done()
			defer func() { <-sem }()
			file, err := writeQuery(dir, j.idx, j.prelude, j.body, j.o)
			if err != nil {
				j.o.Verdict = "error"
				j.o.Output = err.Error()
				return
			}
			j.o.File = file
			if j.o.Ground {
				if err := writeGround(file, file); err != nil {
					j.o.Verdict, j.o.Output = "error", err.Error()
					return
				}
			}
			to := timeoutS
			if j.o.ExpectSat && to > 4 {
				to = 4
			}
			v, s, out, t := race(file, to, j.o.Concrete)
			j.o.Verdict, j.o.Solver, j.o.Time = v, s, t
			if v != "unsat" {
				j.o.Output = truncate(out, 20000)
			}
			if j.o.ExpectSat && v == "unknown" {
				// second, weaker guard: the ground part of the query (quantified assumptions dropped) must be satisfiable
				gfile := strings.TrimSuffix(file, ".smt2") + "_ground.smt2"
				if err := writeGround(file, gfile); err == nil {
					gv, gs, _, gt := race(gfile, to, j.o.Concrete)
					j.o.Time += gt
					switch gv {
					case "sat":
						j.o.Verdict, j.o.Solver = "sat-ground", gs
					case "unsat":
						j.o.Verdict, j.o.Solver = "unsat", gs+"(ground)"
					}
					os.Remove(gfile)
				}
			}
		}(j)
	}
	wg.Wait()
}

var quantDefRe = regexp.MustCompile(`^\(define-fun(?:-rec)? ([^ ]+) `)

// writeGround copies an SMT file without its quantified assertions (and
// without assertions that mention a quantified definition).
func writeGround(in, out string) error {
	b, err := os.ReadFile(in)
	if err != nil {
		return err
	}
	forms := splitTopLevelForms(string(b))
	quantNames := map[string]bool{}
	for _, f := range forms {
		if m := quantDefRe.FindStringSubmatch(f); m != nil && (strings.Contains(f, "(forall") || strings.Contains(f, "(exists")) {
			quantNames[m[1]] = true
		}
	}
	// definitions that use quantified definitions are quantified too
	for changed := true; changed; {
		changed = false
		for _, f := range forms {
			if m := quantDefRe.FindStringSubmatch(f); m != nil && !quantNames[m[1]] {
				for q := range quantNames {
					if strings.Contains(f, "("+q+" ") {
						quantNames[m[1]] = true
						changed = true
						break
					}
				}
			}
		}
	}
	var sb strings.Builder
	for _, f := range forms {
		if strings.HasPrefix(f, "(assert") {
			drop := strings.Contains(f, "(forall") || strings.Contains(f, "(exists")
			for q := range quantNames {
				if strings.Contains(f, "("+q+" ") {
					drop = true
				}
			}
			if drop {
				continue
			}
		}
		sb.WriteString(f)
		sb.WriteString("\n")
	}
	return os.WriteFile(out, []byte(sb.String()), 0o644)
}

func splitTopLevelForms(src string) []string {
	var forms []string
	depth, start := 0, -1
	inStr := false
	for i := 0; i < len(src); i++ {
		c := src[i]
		if inStr {
			if c == '"' {
				inStr = false
			}
			continue
		}
		switch c {
		case ';':
			if depth == 0 {
				for i < len(src) && src[i] != '\n' {
					i++
				}
			}
		case '"':
			inStr = true
		case '(':
			if depth == 0 {
				start = i
			}
			depth++
		case ')':
			depth--
			if depth == 0 && start >= 0 {
				forms = append(forms, src[start:i+1])
				start = -1
			}
		}
	}
	return forms
}
