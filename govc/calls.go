package main

import (
	"fmt"
	"go/ast"
	"go/constant"
	"go/token"
	"go/types"
	"regexp"
	"sort"
	"strings"

	"golang.org/x/tools/go/ssa"
)

const maxInlineDepth = 5

func origin(fn *ssa.Function) *ssa.Function {
	if o := fn.Origin(); o != nil {
		return o
	}
	return fn
}

var pkgPathRe = regexp.MustCompile(`[A-Za-z0-9_.\-/]+/([A-Za-z0-9_\-]+)\.([A-Za-z0-9_]+)\)`)

// wildcardKey turns "(a/b/c.T).M" into "(_.T).M" and "(*a/b/c.T).M" into "(*_.T).M".
func wildcardKey(k string) string {
	if !strings.HasPrefix(k, "(") {
		return ""
	}
	end := strings.Index(k, ")")
	if end < 0 {
		return ""
	}
	recv := k[1:end]
	star := ""
	if strings.HasPrefix(recv, "*") {
		star = "*"
		recv = recv[1:]
	}
	dot := strings.LastIndex(recv, ".")
	if dot < 0 {
		return ""
	}
	return "(" + star + "_" + recv[dot:] + ")" + k[end+1:]
}

func (g *Gen) lookupContract(fn *ssa.Function) *Contract {
	fn = origin(fn)
	if fn.Pkg != nil || fn.Parent() != nil {
		pk := ""
		if fn.Pkg != nil {
			pk = fn.Pkg.Pkg.Path()
		} else {
			p := fn.Parent()
			for p.Parent() != nil {
				p = p.Parent()
			}
			if p.Pkg != nil {
				pk = p.Pkg.Pkg.Path()
			}
		}
		if g.contract != nil && g.contract.View != "" {
			if c, ok := g.w.contracts[pk+"::"+relName(fn)+"@"+g.contract.View]; ok {
				return c
			}
		}
		if c, ok := g.w.contracts[pk+"::"+relName(fn)]; ok {
			return c
		}
	} else if fn.Signature.Recv() != nil {
		// method of an instantiated or external type without package (wrappers)
	}
	full := fn.String()
	if c, ok := g.w.prelude[full]; ok && (!c.Concrete || g.concrete) {
		return c
	}
	if wk := wildcardKey(full); wk != "" {
		if c, ok := g.w.prelude[wk]; ok && (!c.Concrete || g.concrete) {
			return c
		}
	}
	return nil
}

func (g *Gen) lookupInvokeContract(c *ssa.CallCommon) (*Contract, string) {
	full := c.Method.FullName()
	// interfaces declared in the repository: contract written next to the interface, keyed (Iface).Method
	if n, ok := c.Value.Type().(*types.Named); ok && n.Obj().Pkg() != nil && isRepoPkg(n.Obj().Pkg()) {
		if ct, ok := g.w.contracts[n.Obj().Pkg().Path()+"::("+n.Obj().Name()+")."+c.Method.Name()]; ok {
			return ct, full
		}
	}
	if ct, ok := g.w.prelude[full]; ok {
		return ct, full
	}
	// keyed by the static type of the receiver value
	if n, ok := c.Value.Type().(*types.Named); ok && n.Obj().Pkg() != nil {
		k := "(" + n.Obj().Pkg().Path() + "." + n.Obj().Name() + ")." + c.Method.Name()
		if ct, ok := g.w.prelude[k]; ok {
			return ct, k
		}
		if ct, ok := g.w.prelude["(_."+n.Obj().Name()+")."+c.Method.Name()]; ok {
			return ct, k
		}
	}
	if wk := wildcardKey(full); wk != "" {
		if ct, ok := g.w.prelude[wk]; ok {
			return ct, full
		}
	}
	return nil, full
}

func (f *Frame) effectFreeCall(c *ssa.CallCommon) bool {
	g := f.g
	if c.IsInvoke() {
		ct, _ := g.lookupInvokeContract(c)
		return ct != nil && ct.EffectFree
	}
	if fn := c.StaticCallee(); fn != nil {
		ct := g.lookupContract(fn)
		return ct != nil && ct.EffectFree
	}
	return false
}

func (f *Frame) call(c *ssa.CallCommon, instr ssa.Value, st *State, reach string, pos token.Pos) Val {
	g := f.g
	if b, ok := c.Value.(*ssa.Builtin); ok {
		return f.builtin(b, c, instr, st, reach, pos)
	}
	var args []Val
	if c.IsInvoke() {
		args = append(args, f.val(c.Value, st))
	}
	for _, a := range c.Args {
		args = append(args, f.val(a, st))
	}
	resT := instr.Type()
	f.curArgs = c.Args
	if fn := c.StaticCallee(); fn != nil {
		switch fn.String() {
		case "github.com/cosmos/cosmos-sdk/types.KVStorePrefixIterator":
			if v, ok := f.kvIterator(args, instr, st); ok {
				return v
			}
		case "fmt.Sprintf":
			if v, ok := f.sprintf(c, args, instr.Name()); ok {
				return v
			}
		case "encoding/json.Marshal":
			// json.Marshal of a map[string]string: a function of the map's contents (encoding/json writes the keys in
			// sorted order, A-DEP); never fails for this type
			if mi, isMI := c.Args[0].(*ssa.MakeInterface); isMI && len(args) == 1 {
				args[0] = f.val(mi.X, st)
			}
			if len(args) == 1 && args[0].GoT != nil {
				if mt, ok := args[0].GoT.Underlying().(*types.Map); ok && args[0].Term != "" {
					ms := g.sorts.sortOf(mt)
					if kv := g.sorts.mapKV[ms]; kv[0] == "Str" && kv[1] == "Str" {
						h, _ := g.sorts.mapHeap(ms)
						enc, _, _ := g.jsonMapFuncs()
						out := g.def(f.name(instr), "Str", fmt.Sprintf("(%s (select %s %s))", enc, g.heapGet(st, h), args[0].Term))
						return Val{Tuple: []Val{{Sort: "Str", Term: out}, {Sort: "Err", Term: "Err_nil"}}}
					}
				}
			}
		case "encoding/json.Unmarshal":
			// into a map[string]string: the entries decoded from the data are added to the map
			if len(args) == 2 && args[1].Ptr != nil && args[0].Sort == "Str" {
				var el types.Type
				if args[1].Ptr.Cell != nil && len(args[1].Ptr.Path) == 0 {
					el = args[1].Ptr.Cell.goT
				}
				if el != nil {
					if mt, ok := el.Underlying().(*types.Map); ok {
						ms := g.sorts.sortOf(mt)
						if kv := g.sorts.mapKV[ms]; kv[0] == "Str" && kv[1] == "Str" {
							cur := g.load(st, args[1].Ptr, el)
							h, mv := g.sorts.mapHeap(ms)
							_, dec, okf := g.jsonMapFuncs()
							errv := g.fresh(f.name(instr), "Err")
							g.assume(fmt.Sprintf("(= (= %s Err_nil) (%s %s))", errv, okf, args[0].Term))
							old := fmt.Sprintf("(select %s %s)", g.heapGet(st, h), cur.Term)
							empty := fmt.Sprintf("(mk_%s ((as const (Array Str Bool)) false) ((as const (Array Str Str)) %s) 0)", mv, strLit(""))
							merged := g.fresh(f.name(instr)+"_merged", mv)
							// decoding into an empty map yields exactly the decoded entries; otherwise the result is some merge
							if g.freshMaps[cur.Term] {
								g.assume(fmt.Sprintf("(= %s (%s %s))", merged, dec, args[0].Term)) // the map was made just before and never written
								delete(g.freshMaps, cur.Term)
							} else {
								g.assume(fmt.Sprintf("(=> (= %s %s) (= %s (%s %s)))", old, empty, merged, dec, args[0].Term))
							}
							junk := g.fresh(f.name(instr)+"_partial", mv)
							g.heapSet(st, h, fmt.Sprintf("(store %s %s (ite (= %s Err_nil) %s %s))", g.heapGet(st, h), cur.Term, errv, merged, junk))
							g.trusted["encoding/json on map[string]string (jmap_enc/jmap_dec: decoding inverts encoding; a function of the contents)"] = true
							return Val{Sort: "Err", Term: errv, GoT: resT}
						}
					}
				}
			}
			// json.Unmarshal(data, &x) with x a local: x becomes a function of data when decoding succeeds
			// (json_ok_S / json_dec_S uninterpreted, A-DEP); on failure x is unconstrained.
			if len(args) == 2 && args[1].Ptr != nil && args[0].Sort == "Str" {
				var el types.Type
				if args[1].Ptr.Cell != nil && len(args[1].Ptr.Path) == 0 {
					el = args[1].Ptr.Cell.goT
				}
				cur := g.load(st, args[1].Ptr, el)
				if cur.Term != "" {
					srt := cur.Sort
					okf := g.uf("json_ok_"+mangle(srt), []string{"Str"}, "Bool")
					decf := g.uf("json_dec_"+mangle(srt), []string{"Str"}, srt)
					errv := g.fresh(f.name(instr), "Err")
					g.assume(fmt.Sprintf("(= (= %s Err_nil) (%s %s))", errv, okf, args[0].Term))
					junk := g.fresh(f.name(instr)+"_partial", srt)
					nv := g.def(f.name(instr)+"_dec", srt, fmt.Sprintf("(ite (= %s Err_nil) (%s %s) %s)", errv, decf, args[0].Term, junk))
					g.store(st, args[1].Ptr, Val{Sort: srt, Term: nv, GoT: el})
					g.trusted["encoding/json.Unmarshal (decoding is a function of the input bytes: json_ok/json_dec uninterpreted)"] = true
					return Val{Sort: "Err", Term: errv, GoT: resT}
				}
			}
		case "crypto/sha256.Sum256":
			// one-shot digest: the same uninterpreted function as the hash object (A-HASH)
			if len(args) == 1 && args[0].Sort == "Str" {
				g.useTheory("strings")
				g.trusted["crypto/sha256 (hash object modelled: Sum(nil) = sha256raw(bytes written))"] = true
				return Val{Sort: "Str", Term: g.def(f.name(instr), "Str", fmt.Sprintf("(sha256raw %s)", args[0].Term)), GoT: resT}
			}
		case "(github.com/cosmos/cosmos-sdk/types.AccAddress).Equals":
			// byte-wise equality of two account addresses (the argument arrives boxed in the sdk.Address interface)
			if len(args) == 2 && args[0].Sort == "Str" && len(args[1].Tuple) == 1 && args[1].Tuple[0].Sort == "Str" {
				g.trusted["(sdk.AccAddress).Equals (byte-wise equality of the two addresses; both non-empty or both empty)"] = true
				return Val{Sort: "Bool", Term: g.def(f.name(instr), "Bool", fmt.Sprintf("(= %s %s)", args[0].Term, args[1].Tuple[0].Term)), GoT: resT}
			}
		case "encoding/hex.EncodeToString":
			if len(args) == 1 && args[0].Sort == "Str" {
				g.useTheory("strings")
				return Val{Sort: "Str", Term: g.def(f.name(instr), "Str", fmt.Sprintf("(hexenc %s)", args[0].Term)), GoT: resT}
			}
		case "crypto/sha256.New":
			g.useTheory("strings")
			h := g.fresh(f.name(instr), "Iface")
			c := g.newCell(f.prefix+instr.Name()+"_sha", "Str", types.Typ[types.String])
			st.cells[c] = Val{Sort: "Str", Term: strLit("")}
			g.hashState[h] = c
			return Val{Sort: "Iface", Term: h, GoT: resT}
		case "io.WriteString":
			if c := g.hashState[args[0].Term]; c != nil && len(args) == 2 {
				cur := g.load(st, &Addr{Cell: c}, nil)
				st.cells[c] = Val{Sort: "Str", Term: g.def(f.name(instr)+"_w", "Str", fmt.Sprintf("(str_cat %s %s)", cur.Term, args[1].Term))}
				return Val{Tuple: []Val{{Sort: "Int", Term: fmt.Sprintf("(str_len %s)", args[1].Term)}, {Sort: "Err", Term: "Err_nil"}}}
			}
		case "github.com/cosmos/cosmos-sdk/types.MustNewDecFromStr":
			if fc, ok := c.Args[0].(*ssa.Const); ok && fc.Value != nil {
				if v, ok := decLiteral(constantString(fc)); ok {
					g.trusted["github.com/cosmos/cosmos-sdk/types.MustNewDecFromStr (constant argument evaluated exactly)"] = true
					return Val{Sort: "Int", Term: v, GoT: resT}
				}
			}
		case "(github.com/cosmos/cosmos-sdk/types.Coins).Add":
			if len(args) == 2 && args[1].CoinsOf != "" {
				// x.Add(y...) with y a Coins value
				g.useTheory("coins")
				g.trusted["(github.com/cosmos/cosmos-sdk/types.Coins).Add"] = true
				return Val{Sort: "Coins", Term: g.def(f.name(instr), "Coins", fmt.Sprintf("(Coins_add %s %s)", args[0].Term, args[1].CoinsOf)), GoT: resT}
			}
			if len(args) == 2 && args[1].Elems != nil {
				g.useTheory("coins")
				g.trusted["(github.com/cosmos/cosmos-sdk/types.Coins).Add"] = true
				cur := args[0].Term
				for _, e := range args[1].Elems {
					cur = fmt.Sprintf("(Coins_add %s (Coins_one (T_sdk_Coin_Denom %s) (T_sdk_Coin_Amount %s)))", cur, e.Term, e.Term)
				}
				return Val{Sort: "Coins", Term: g.def(f.name(instr), "Coins", cur), GoT: resT}
			}
		case "github.com/cosmos/cosmos-sdk/types.NewCoins":
			if len(args) == 1 && args[0].Elems != nil {
				g.useTheory("coins")
				g.trusted["github.com/cosmos/cosmos-sdk/types.NewCoins"] = true
				cur := "Coins_empty"
				for _, e := range args[0].Elems {
					f.nopanic("NewCoins:amount_nonnegative", reach, fmt.Sprintf("(>= (T_sdk_Coin_Amount %s) 0)", e.Term), pos)
					cur = fmt.Sprintf("(Coins_add %s (Coins_one (T_sdk_Coin_Denom %s) (T_sdk_Coin_Amount %s)))", cur, e.Term, e.Term)
				}
				return Val{Sort: "Coins", Term: g.def(f.name(instr), "Coins", cur), GoT: resT}
			}
		}
	}
	if c.IsInvoke() {
		if v, ok := f.codecCall(c, args, instr, st, reach, pos); ok {
			return v
		}
		if len(args) > 0 && args[0].Sort == "Iter" && g.kvIters[args[0].Term] != nil {
			if v, ok := f.kvIterMethod(c.Method.Name(), args[0], instr, st, resT); ok {
				return v
			}
		}
		if hc := g.hashState[args[0].Term]; hc != nil {
			// sha256 object: Write appends, Sum returns the digest of what was written (sha256raw, uninterpreted)
			switch c.Method.Name() {
			case "Write":
				cur := g.load(st, &Addr{Cell: hc}, nil)
				st.cells[hc] = Val{Sort: "Str", Term: g.def(f.name(instr)+"_w", "Str", fmt.Sprintf("(str_cat %s %s)", cur.Term, args[1].Term))}
				return Val{Tuple: []Val{{Sort: "Int", Term: fmt.Sprintf("(str_len %s)", args[1].Term)}, {Sort: "Err", Term: "Err_nil"}}}
			case "Sum":
				cur := g.load(st, &Addr{Cell: hc}, nil)
				g.trusted["crypto/sha256 (hash object modelled: Sum(nil) = sha256raw(bytes written))"] = true
				d := fmt.Sprintf("(sha256raw %s)", cur.Term)
				if args[1].Term != "Bytes_nil" {
					d = fmt.Sprintf("(str_cat %s %s)", args[1].Term, d)
				}
				return Val{Sort: "Str", Term: g.def(f.name(instr), "Str", d), GoT: resT}
			}
		}
		ct, key := g.lookupInvokeContract(c)
		if ct != nil {
			names := []string{"recv"}
			sig := c.Signature()
			for i := 0; i < sig.Params().Len(); i++ {
				names = append(names, sig.Params().At(i).Name())
			}
			return f.applyContract(ct, key, names, sig, args, st, reach, pos, instr.Name())
		}
		return f.unmodelled(key, args, resT, st, instr.Name())
	}
	fn := c.StaticCallee()
	if fn == nil {
		// call of a function value
		fv := f.val(c.Value, st)
		if fv.Clo != nil {
			return f.inline(fv.Clo.Fn, args, fv.Clo.Bindings, st, reach, instr.Name())
		}
		if fv.Fn != nil {
			return f.callStatic(fv.Fn, args, resT, st, reach, pos, instr.Name())
		}
		return f.unmodelled("dynamic call "+c.Value.Name(), args, resT, st, instr.Name())
	}
	if mc, ok := c.Value.(*ssa.MakeClosure); ok {
		cv := f.val(mc, st)
		return f.inline(fn, args, cv.Clo.Bindings, st, reach, instr.Name())
	}
	return f.callStatic(fn, args, resT, st, reach, pos, instr.Name())
}

func (f *Frame) callStatic(fn *ssa.Function, args []Val, resT types.Type, st *State, reach string, pos token.Pos, rname string) Val {
	g := f.g
	ct := g.lookupContract(fn)
	if ct != nil && ct.Iterates {
		return f.applyIterates(ct, fn, args, resT, st, reach, pos, rname)
	}
	if ct != nil && ct.Trusted && ct.View == "" && g.contract != nil && g.contract.View != "" && fn != g.top && len(fn.Blocks) > 0 && !hasLoops(fn) && fn.Pkg != nil && isRepoPkg(fn.Pkg.Pkg) {
		// verifying at another level of abstraction (view): a trusted handler-level contract of a small repo function is
		// not used; the body is
		g.inlined[g.funcKey(fn)] = true
		return f.inlineWith(fn, args, nil, st, reach, rname, nil)
	}
	if ct != nil && !ct.Inline && fn != g.top {
		names := paramNames(fn)
		return f.applyContract(ct, fn.String(), names, fn.Signature, args, st, reach, pos, rname)
	}
	if ct != nil && fn == g.top {
		// recursion on the function under verification: use its contract
		return f.applyContract(ct, fn.String(), paramNames(fn), fn.Signature, args, st, reach, pos, rname)
	}
	repo := fn.Pkg != nil && isRepoPkg(fn.Pkg.Pkg)
	if fn.Pkg == nil && fn.Parent() == nil && fn.Signature.Recv() != nil {
		// synthetic wrapper/thunk or instantiated generic
		if o := fn.Origin(); o != nil && o.Pkg != nil {
			repo = isRepoPkg(o.Pkg.Pkg)
		}
	}
	if (repo || (ct != nil && ct.Inline)) && len(fn.Blocks) > 0 {
		rec := false
		for _, s := range g.stack {
			if s == fn {
				rec = true
			}
		}
		loopsOK := !hasLoops(fn) || (ct != nil && len(ct.Loops) > 0)
		if !rec && f.depth < maxInlineDepth && loopsOK {
			g.inlined[g.funcKey(fn)] = true
			return f.inlineWith(fn, args, nil, st, reach, rname, ct)
		}
		// A helper without a contract that contains loops, called from a function whose contract has invariants for
		// more loops than its body has: the loops were moved out into the helper (extract-function refactoring). The
		// helper is inlined and its loops take the caller's unclaimed invariants, in order.
		if !rec && f.depth < maxInlineDepth && ct == nil && f.spec != nil {
			if adopt := f.adoptLoops(fn); adopt != nil {
				// the caller's variables the helper receives as arguments keep their contract names inside it
				adopt.argAlias = map[string]string{}
				for i, a := range f.curArgs {
					if i < len(fn.Params) {
						if n := f.sourceName(a); n != "" && n != fn.Params[i].Name() {
							adopt.argAlias[n] = fn.Params[i].Name()
						}
					}
				}
				g.inlined[g.funcKey(fn)] = true
				g.note("loops of %s take the invariants of %s (the loop was moved into a helper)", relName(fn), relName(f.fn))
				return f.inlineWith(fn, args, nil, st, reach, rname, adopt)
			}
		}
	}
	return f.unmodelled(fn.String(), args, resT, st, rname)
}

func paramNames(fn *ssa.Function) []string {
	var names []string
	for _, p := range fn.Params {
		names = append(names, p.Name())
	}
	return names
}

func (f *Frame) inline(fn *ssa.Function, args []Val, free []Val, st *State, reach string, rname string) Val {
	return f.inlineWith(fn, args, free, st, reach, rname, nil)
}

func (f *Frame) inlineWith(fn *ssa.Function, args []Val, free []Val, st *State, reach string, rname string, spec *Contract) Val {
	g := f.g
	res, exit, _ := g.runFunc(fn, args, free, st.clone(), reach, f.depth+1, spec, false)
	// continue in the merged exit state (paths that panic inside the callee do not return)
	*st = *exit
	switch len(res) {
	case 0:
		return Val{}
	case 1:
		return res[0]
	}
	return Val{Tuple: res}
}

// unmodelled: a call without contract and without body in reach.
func (f *Frame) unmodelled(key string, args []Val, resT types.Type, st *State, rname string) Val {
	g := f.g
	pure := true
	for _, a := range args {
		if a.Ptr != nil || a.Clo != nil || a.Sort == "Ctx" || a.Sort == "Iface" || a.Sort == "Func" || strings.HasPrefix(a.Sort, "MapRef_") || strings.HasPrefix(a.Sort, "Slice_") || strings.HasPrefix(a.Sort, "T_") && strings.Contains(a.Sort, "Keeper") || strings.HasPrefix(a.Sort, "O_") {
			pure = false
		}
		if a.Term == "" && a.Ptr == nil && a.Clo == nil && len(a.Tuple) == 0 {
			pure = false
		}
	}
	if pure && resT != nil {
		// deterministic function of its arguments (assumption A-PUREEXT)
		g.assumes["A-PUREEXT: "+key+" is a deterministic, state-free function of its arguments (uninterpreted)"] = true
		mk := func(t types.Type, idx int) Val {
			if _, isPtr := t.Underlying().(*types.Pointer); isPtr {
				return g.freshVal(f.prefix+rname, t, st)
			}
			var sorts, terms []string
			for _, a := range args {
				sorts = append(sorts, a.Sort)
				terms = append(terms, a.Term)
			}
			rs := g.sorts.sortOf(t)
			name := g.uf(fmt.Sprintf("uf_%s_%d", key, idx), sorts, rs)
			var term string
			if len(terms) == 0 {
				term = name
			} else {
				term = fmt.Sprintf("(%s %s)", name, strings.Join(terms, " "))
			}
			v := Val{Sort: rs, Term: g.def(f.prefix+rname, rs, term), GoT: t}
			for _, inv := range g.typeInv(v.Term, t, 0) {
				g.assume(inv)
			}
			return v
		}
		if tup, ok := resT.(*types.Tuple); ok {
			if tup.Len() == 0 {
				return Val{}
			}
			var vs []Val
			for i := 0; i < tup.Len(); i++ {
				vs = append(vs, mk(tup.At(i).Type(), i))
			}
			return Val{Tuple: vs}
		}
		return mk(resT, 0)
	}
	g.unmod[key] = true
	f.havocAll(st)
	for _, a := range args {
		f.havocReachable(a, st)
	}
	if resT == nil {
		return Val{}
	}
	if tup, ok := resT.(*types.Tuple); ok && tup.Len() == 0 {
		return Val{}
	}
	return g.freshVal(f.prefix+rname, resT, st)
}

func (f *Frame) havocAll(st *State) {
	g := f.g
	var names []string
	for n := range g.w.world {
		if g.worldAvailable(n) {
			names = append(names, n)
		}
	}
	for n := range g.sorts.heapUsed {
		names = append(names, n)
	}
	sort.Strings(names)
	for _, n := range names {
		g.heapGet(st, n)
		g.heapHavoc(st, n)
	}
}

func (f *Frame) havocReachable(a Val, st *State) {
	g := f.g
	if a.Ptr != nil && a.Ptr.Cell != nil {
		old, ok := st.cells[a.Ptr.Cell]
		if ok && old.Term == "" {
			if old.Ptr != nil {
				f.havocReachable(old, st)
			}
			return
		}
		g.store(st, &Addr{Cell: a.Ptr.Cell}, g.freshVal("c_"+a.Ptr.Cell.name+"_h", a.Ptr.Cell.goT, st))
	}
	if a.Clo != nil {
		for _, b := range a.Clo.Bindings {
			f.havocReachable(b, st)
		}
	}
}

// ---------------------------------------------------------------------------
// builtins

func (f *Frame) builtin(b *ssa.Builtin, c *ssa.CallCommon, instr ssa.Value, st *State, reach string, pos token.Pos) Val {
	g := f.g
	var args []Val
	for _, a := range c.Args {
		args = append(args, f.val(a, st))
	}
	switch b.Name() {
	case "len", "cap":
		v := args[0]
		switch {
		case v.Sort == "Str":
			t := g.def(f.name(instr), "Int", fmt.Sprintf("(str_len %s)", v.Term))
			g.assume(fmt.Sprintf("(<= %s %s)", t, maxAllocBytes)) // A-MEM: a string that exists fits the address space
			return Val{Sort: "Int", Term: t, GoT: instr.Type()}
		case g.sorts.sliceEl[v.Sort] != "":
			return Val{Sort: "Int", Term: g.def(f.name(instr), "Int", fmt.Sprintf("(%s_%s %s)", b.Name(), v.Sort, v.Term)), GoT: instr.Type()}
		case strings.HasPrefix(v.Sort, "MapRef_"):
			h, mv := g.sorts.mapHeap(v.Sort)
			t := g.def(f.name(instr), "Int", fmt.Sprintf("(ite (= %s 0) 0 (mcnt_%s (select %s %s)))", v.Term, mv, g.heapGet(st, h), v.Term))
			g.assume(fmt.Sprintf("(>= %s 0)", t))
			if mt, ok := c.Args[0].Type().Underlying().(*types.Map); ok {
				// a map that exists holds every key and value in memory: its count is bounded by the address space
				if es := gcSizes.Sizeof(mt.Key()) + gcSizes.Sizeof(mt.Elem()); es > 0 {
					g.assume(fmt.Sprintf("(<= (* %d %s) %s)", es, t, maxAllocBytes))
				}
			}
			return Val{Sort: "Int", Term: t, GoT: instr.Type()}
		case v.Sort == "Coins":
			return Val{Sort: "Int", Term: g.def(f.name(instr), "Int", fmt.Sprintf("(Coins_len %s)", v.Term)), GoT: instr.Type()}
		}
		g.fail("%s: %s of sort %s", f.fn.Name(), b.Name(), v.Sort)
	case "append":
		return f.appendOp(args, c, instr, st, reach)
	case "copy":
		g.fail("%s: builtin copy is not supported", f.fn.Name())
	case "delete":
		m, k := args[0], args[1]
		h, mv := g.sorts.mapHeap(m.Sort)
		cur := fmt.Sprintf("(select %s %s)", g.heapGet(st, h), m.Term)
		nv := fmt.Sprintf("(mk_%s (store (mhas_%s %s) %s false) (mval_%s %s) (ite (select (mhas_%s %s) %s) (- (mcnt_%s %s) 1) (mcnt_%s %s)))", mv, mv, cur, k.Term, mv, cur, mv, cur, k.Term, mv, cur, mv, cur)
		g.heapSet(st, h, fmt.Sprintf("(ite (= %s 0) %s (store %s %s %s))", m.Term, g.heapGet(st, h), g.heapGet(st, h), m.Term, nv))
		return Val{}
	case "print", "println":
		return Val{}
	case "min", "max":
		op := "<="
		if b.Name() == "max" {
			op = ">="
		}
		cur := args[0].Term
		for _, a := range args[1:] {
			cur = fmt.Sprintf("(ite (%s %s %s) %s %s)", op, cur, a.Term, cur, a.Term)
		}
		return Val{Sort: "Int", Term: g.def(f.name(instr), "Int", cur), GoT: instr.Type()}
	}
	g.fail("%s: builtin %s is not supported", f.fn.Name(), b.Name())
	return Val{}
}

// appendOp follows the Go specification: when the capacity suffices the
// elements are written in place into the backing array of the first argument
// (visible through every alias), otherwise a fresh array is allocated.
func (f *Frame) appendOp(args []Val, c *ssa.CallCommon, instr ssa.Value, st *State, reach string) Val {
	g := f.g
	s := args[0]
	src := args[1]
	srt := s.Sort
	if srt == "Str" {
		// append([]byte, ...): byte strings are values
		// appending to the nil slice behaves like appending to the empty one
		base := s.Term
		if base == "Bytes_nil" {
			base = strLit("")
		}
		return Val{Sort: "Str", Term: g.def(f.name(instr), "Str", fmt.Sprintf("(str_cat %s %s)", base, src.Term)), GoT: instr.Type()}
	}
	if _, ok := g.sorts.sliceEl[srt]; !ok {
		if srt == "Coins" {
			g.fail("%s: append on sdk.Coins must go through Coins.Add (abstract representation)", f.fn.Name())
		}
		g.fail("%s: append on sort %s", f.fn.Name(), srt)
	}
	if src.Sort != srt {
		g.fail("%s: append of %s to %s", f.fn.Name(), src.Sort, srt)
	}
	el := g.sorts.sliceEl[srt]
	h := g.sorts.heapFor(srt)
	H := g.heapGet(st, h)
	sl := func(field string, v Val) string { return fmt.Sprintf("(%s_%s %s)", field, srt, v.Term) }
	n := g.def(f.name(instr)+"_n", "Int", sl("len", src))
	newLen := g.def(f.name(instr)+"_len", "Int", fmt.Sprintf("(+ %s %s)", sl("len", s), n))
	fits := g.defBool(f.name(instr)+"_fits", fmt.Sprintf("(<= %s %s)", newLen, sl("cap", s)))
	// source elements are read before anything is written (memmove semantics)
	srcArr := g.def(f.name(instr)+"_src", "(Array Int "+el+")", fmt.Sprintf("(select %s %s)", H, sl("arr", src)))
	dstArr := g.def(f.name(instr)+"_dst", "(Array Int "+el+")", fmt.Sprintf("(select %s %s)", H, sl("arr", s)))
	// resulting backing array: dst with [off+len, off+len+n) overwritten by src[off', off'+n)
	resArr := g.fresh(f.name(instr)+"_arr", "(Array Int "+el+")")
	base := g.def(f.name(instr)+"_base", "Int", fmt.Sprintf("(+ %s %s)", sl("off", s), sl("len", s)))
	g.assume(fmt.Sprintf("(forall ((i Int)) (! (= (select %s i) (ite (and (<= %s i) (< i (+ %s %s))) (select %s (+ (- i %s) %s)) (select %s i))) :pattern ((select %s i))))",
		resArr, base, base, n, srcArr, base, sl("off", src), dstArr, resArr))
	fresh := g.allocLoc(st)
	// fresh array: copy of dst contents shifted to offset 0, followed by the source elements
	frArr := g.fresh(f.name(instr)+"_farr", "(Array Int "+el+")")
	g.assume(fmt.Sprintf("(forall ((i Int)) (! (= (select %s i) (ite (< i %s) (select %s (+ %s i)) (select %s (+ (- i %s) %s)))) :pattern ((select %s i))))",
		frArr, sl("len", s), dstArr, sl("off", s), srcArr, sl("len", s), sl("off", src), frArr))
	newCap := g.fresh(f.name(instr)+"_cap", "Int")
	g.assume(fmt.Sprintf("(>= %s %s)", newCap, newLen))
	g.heapSet(st, h, fmt.Sprintf("(ite %s (store %s %s %s) (store %s %s %s))", fits, H, sl("arr", s), resArr, H, fresh, frArr))
	res := fmt.Sprintf("(ite %s (mk_%s %s %s %s %s) (mk_%s %s 0 %s %s))", fits, srt, sl("arr", s), sl("off", s), newLen, sl("cap", s), srt, fresh, newLen, newCap)
	rv := g.def(f.name(instr), srt, res)
	// append(s, x, y...) with the elements given one by one (not a spread of another slice): the same facts through the
	// slice accessor (consequences of the array equations above and of the accessor's defining axiom): the result
	// holds the old elements followed by the new ones, and slices backed by other arrays read what they read before.
	// Stated so that quantified facts about elements instantiate across the append. Not emitted for spreads
	// (append(a, b...)): there the index shift between source and result feeds matching loops with sequence facts.
	if nArgs := varargsLen(c); nArgs > 0 {
		H2 := g.heapGet(st, h)
		sg := "sget_" + srt
		g.assume(fmt.Sprintf("(forall ((i!w Int)) (! (=> (and (<= 0 i!w) (< i!w %s)) (= (%s %s %s i!w) (%s %s %s i!w))) :pattern ((%s %s %s i!w))))",
			sl("len", s), sg, H2, rv, sg, H, s.Term, sg, H2, rv))
		for k := 0; k < nArgs; k++ {
			g.assume(fmt.Sprintf("(= (%s %s %s (+ %s %d)) (%s %s %s %d))", sg, H2, rv, sl("len", s), k, sg, H, src.Term, k))
		}
		g.assume(fmt.Sprintf("(forall ((s!w %s) (i!w Int)) (! (=> (and (not (= (arr_%s s!w) %s)) (not (= (arr_%s s!w) %s))) (= (%s %s s!w i!w) (%s %s s!w i!w))) :pattern ((%s %s s!w i!w))))",
			srt, srt, sl("arr", s), srt, fresh, sg, H2, sg, H, sg, H2))
	}
	return Val{Sort: srt, Term: rv, GoT: instr.Type()}
}

// ---------------------------------------------------------------------------
// contract application at a call site

func (f *Frame) applyContract(ct *Contract, key string, names []string, sig *types.Signature, args []Val, st *State, reach string, pos token.Pos, rname string) Val {
	g := f.g
	ct.used = true
	if ct.PkgPath != "" {
		// the caller's proof rests on this contract: it is an obligation of every property the caller serves
		g.relied[ct.PkgPath+"::"+ct.Key] = true
		if ct.Refined != "" {
			g.relied[ct.PkgPath+"::"+ct.Refined] = true
		}
		if ct.Trusted && ct.View == "" && g.w.contracts[ct.PkgPath+"::"+ct.Key+"@store"] != nil {
			// the verified store-level contract of the same function is what stands behind the trusted table-level one
			g.relied[ct.PkgPath+"::"+ct.Key+"@store"] = true
		}
	}
	if ct.Trusted && ct.Refined != "" {
		// the table-level contract is what the verified store-level contract of the same function says when the table is
		// read through the store (lemma ct.Refined, discharged as its own obligations)
		if lem := g.w.contracts[ct.PkgPath+"::"+ct.Refined]; lem == nil || !lem.IsLemma {
			g.fail("%s: refined by %q, but there is no such lemma in the package", key, ct.Refined)
		}
		if g.w.contracts[ct.PkgPath+"::"+ct.Key+"@store"] == nil {
			g.fail("%s: refined, but the function has no @store contract", key)
		}
		g.trusted["derived|"+key+" (table-level contract = the verified @store contract read through the table view; lemma "+ct.Refined+")"] = true
	} else if ct.Trusted {
		g.trusted[key] = true
	}
	for _, a := range ct.Assumes {
		g.assumes[a] = true
	}
	for _, u := range ct.Uses {
		g.useTheory(u)
	}
	if len(ct.ArgNames) > 0 {
		names = ct.ArgNames
	}
	pre := st.clone()
	env := g.newEnv(pre, pre)
	bind := func(e *Env) {
		for i, a := range args {
			if i < len(names) && names[i] != "" && names[i] != "_" {
				e.vars[names[i]] = a
			}
			e.vars[fmt.Sprintf("arg%d", i)] = a
			// the name the parameter had when the contract was written (it may have been renamed since)
			if len(ct.Params) == len(args) && ct.Params[i] != "_" {
				if _, taken := e.vars[ct.Params[i]]; !taken {
					e.vars[ct.Params[i]] = a
				}
			}
		}
		if sig != nil && sig.Recv() != nil && len(args) > 0 {
			e.vars["recv"] = args[0]
		}
		for _, l := range ct.Lets {
			e.lets[l.Name] = l.Expr
		}
	}
	bind(env)
	// ghost variables of the callee: its postconditions hold for all their values. They are instantiated with the
	// caller's ghost of the same name and sort when there is one, and universally quantified otherwise.
	var qvars []string
	ghostTerm := map[string]Val{}
	quantified := map[string]bool{}
	for _, v := range ct.Vars {
		g.ensureSortNames(v.Sort)
		inst := ""
		if g.contract != nil {
			for _, cv := range g.contract.Vars {
				if cv.Name == v.Name && cv.Sort == v.Sort {
					inst = "ghost_" + cv.Name
				}
			}
		}
		if inst != "" {
			ghostTerm[v.Name] = Val{Sort: v.Sort, Term: inst}
			continue
		}
		g.ctr++
		qn := fmt.Sprintf("gq_%s_%d", mangle(v.Name), g.ctr)
		ghostTerm[v.Name] = Val{Sort: v.Sort, Term: qn}
		quantified[v.Name] = true
		qvars = append(qvars, fmt.Sprintf("(%s %s)", qn, monoOptions(v.Sort)))
	}
	for n, v := range ghostTerm {
		env.vars[n] = v
	}
	// a precondition (or a conjunct of one) that constrains a quantified ghost is not something the caller has to
	// establish: it restricts the values of the ghost for which the postconditions are claimed
	var ghostPremises []string
	for _, r := range ct.Requires {
		if len(quantified) > 0 && mentionsAny(r.Expr, quantified) {
			var rest []ast.Expr
			for _, c := range splitConj(r.Expr) {
				if mentionsAny(c, quantified) {
					ghostPremises = append(ghostPremises, env.trBool(c))
				} else {
					rest = append(rest, c)
				}
			}
			for k, c := range rest {
				g.oblige("callpre", fmt.Sprintf("%s:%s~part%d", shortKey(key), r.Label, k), f.props(), f.fn, reach, env.trBool(c), r.Src, pos)
			}
			continue
		}
		t := env.trBool(r.Expr)
		kind := "callpre"
		if r.Panics {
			if g.contract != nil && g.contract.NoPanic {
				g.oblige("nopanic", shortKey(key)+":"+r.Label, f.props(), f.fn, reach, t, r.Src, pos)
			}
			// the callee returns only if it did not panic
			g.assume(implies(reach, t))
			continue
		}
		g.oblige(kind, shortKey(key)+":"+r.Label, f.props(), f.fn, reach, t, r.Src, pos)
	}
	if ct.EffectFree && len(ct.Ensures) == 0 {
		return f.freshResults(sig, st, rname)
	}
	// havoc the frame
	if ct.ModAll {
		f.havocAll(st)
		for _, a := range args {
			f.havocReachable(a, st)
		}
	}
	for _, m := range ct.Modifies {
		f.havocSpecTarget(m, env, st)
	}
	if ct.Allocates {
		// the callee may allocate: the allocation counter grows
		oldA := g.heapGet(st, "$alloc")
		na := g.heapHavoc(st, "$alloc")
		g.assume(fmt.Sprintf("(> %s %s)", na, oldA))
	}
	res := f.freshResults(sig, st, rname)
	post := g.newEnv(st, pre)
	bind(post)
	bindResults(post, sig, res)
	for n, v := range ghostTerm {
		post.vars[n] = v
	}
	for _, e := range ct.Ensures {
		t := post.trBool(e.Expr)
		if len(qvars) > 0 {
			if len(ghostPremises) > 0 && mentionsAny(e.Expr, quantified) {
				t = implies(and(ghostPremises...), t)
			}
			t = fmt.Sprintf("(forall (%s) %s)", strings.Join(qvars, " "), t)
		}
		g.assume(implies(reach, t))
	}
	return res
}

func shortKey(k string) string {
	k = strings.ReplaceAll(k, modPath+"/", "")
	k = strings.ReplaceAll(k, "github.com/cosmos/cosmos-sdk/", "sdk/")
	return k
}

func (f *Frame) freshResults(sig *types.Signature, st *State, rname string) Val {
	g := f.g
	g.resultMode = true
	defer func() { g.resultMode = false }()
	if sig == nil || sig.Results().Len() == 0 {
		return Val{}
	}
	if sig.Results().Len() == 1 {
		return g.freshVal(f.prefix+rname, sig.Results().At(0).Type(), st)
	}
	var vs []Val
	for i := 0; i < sig.Results().Len(); i++ {
		vs = append(vs, g.freshVal(fmt.Sprintf("%s%s_%d", f.prefix, rname, i), sig.Results().At(i).Type(), st))
	}
	return Val{Tuple: vs}
}

func bindResults(e *Env, sig *types.Signature, res Val) {
	if sig == nil {
		return
	}
	n := sig.Results().Len()
	var vs []Val
	if n == 1 {
		vs = []Val{res}
	} else {
		vs = res.Tuple
	}
	for i := 0; i < n && i < len(vs); i++ {
		e.vars[fmt.Sprintf("result%d", i)] = vs[i]
		if nm := sig.Results().At(i).Name(); nm != "" && nm != "_" {
			if _, taken := e.vars[nm]; !taken {
				e.vars[nm] = vs[i]
			}
		}
	}
	if n == 1 {
		e.vars["result"] = vs[0]
	}
	if n > 0 {
		last := sig.Results().At(n - 1)
		if types.Identical(last.Type(), types.Universe.Lookup("error").Type()) {
			if _, taken := e.vars["err"]; !taken {
				e.vars["err"] = vs[n-1]
			}
		}
	}
}

// havocSpecTarget handles one `modifies` entry of a callee at a call site.
func (f *Frame) havocSpecTarget(m string, env *Env, st *State) {
	g := f.g
	m = strings.TrimSpace(m)
	switch {
	case strings.HasPrefix(m, "W."):
		if _, ok := g.w.world[m]; !ok {
			g.fail("unknown world component %s in modifies", m)
		}
		g.heapGet(st, m)
		g.heapHavoc(st, m)
	case strings.HasPrefix(m, "H."):
		n := strings.TrimPrefix(m, "H.")
		g.heapGet(st, n)
		g.heapHavoc(st, n)
	case env.cellVars[m] != nil:
		// a captured variable (closure contracts)
		c := env.cellVars[m]
		g.allocBound = ""
		g.store(st, &Addr{Cell: c}, g.freshVal("c_"+c.name+"_h", c.goT, st))
	case strings.HasPrefix(m, "map(") && strings.HasSuffix(m, ")"):
		ex, err := parseSpecExpr(m[4 : len(m)-1])
		if err != nil {
			g.fail("%v", err)
		}
		v := env.tr(ex)
		if v.Ptr != nil {
			v = env.deref(v, m)
		}
		h, mv := g.sorts.mapHeap(v.Sort)
		nv := g.fresh("mapval_h", mv)
		g.assume(fmt.Sprintf("(>= (mcnt_%s %s) 0)", mv, nv))
		g.heapSet(st, h, fmt.Sprintf("(store %s %s %s)", g.heapGet(st, h), v.Term, nv))
	case strings.HasPrefix(m, "arr(") && strings.HasSuffix(m, ")"):
		ex, err := parseSpecExpr(m[4 : len(m)-1])
		if err != nil {
			g.fail("%v", err)
		}
		v := env.tr(ex)
		if v.Ptr != nil {
			v = env.deref(v, m)
		}
		h := g.sorts.heapFor(v.Sort)
		el := g.sorts.sliceEl[v.Sort]
		nv := g.fresh("arr_h", "(Array Int "+el+")")
		g.heapSet(st, h, fmt.Sprintf("(store %s (arr_%s %s) %s)", g.heapGet(st, h), v.Sort, v.Term, nv))
	case strings.HasPrefix(m, "*"):
		ex, err := parseSpecExpr(m[1:])
		if err != nil {
			g.fail("%v", err)
		}
		v := env.tr(ex)
		if v.Ptr != nil {
			var el types.Type
			if v.GoT != nil {
				if pt, ok := v.GoT.Underlying().(*types.Pointer); ok {
					el = pt.Elem()
				}
			}
			if el == nil && v.Ptr.Cell != nil && len(v.Ptr.Path) == 0 {
				el = v.Ptr.Cell.goT
			}
			if el == nil {
				g.fail("modifies %s: unknown element type", m)
			}
			g.store(st, v.Ptr, g.freshVal("mod_"+mangle(m), el, st))
			return
		}
		if v.GoT != nil && isPointer(v.GoT) && v.Term != "" {
			el := v.GoT.Underlying().(*types.Pointer).Elem()
			es := g.sorts.sortOf(el)
			h := g.sorts.ptrHeap(es)
			nv := g.freshVal("mod_"+mangle(m), el, st)
			g.heapSet(st, h, fmt.Sprintf("(store %s %s %s)", g.heapGet(st, h), v.Term, nv.Term))
			return
		}
		g.fail("modifies %s: not a pointer", m)
	default:
		g.fail("unsupported modifies target %q", m)
	}
}

// sprintf models fmt.Sprintf with a constant format: in abstract string mode
// an uninterpreted function of the format and the arguments (functional
// consistency only), in concrete mode the concatenation it denotes.
func (f *Frame) sprintf(c *ssa.CallCommon, args []Val, rname string) (Val, bool) {
	g := f.g
	fc, ok := c.Args[0].(*ssa.Const)
	if !ok || fc.Value == nil {
		return Val{}, false
	}
	format := constantString(fc)
	var elems []Val
	if len(args) > 1 {
		if args[1].Elems == nil {
			return Val{}, false
		}
		for _, e := range args[1].Elems {
			switch {
			case len(e.Tuple) == 1:
				elems = append(elems, e.Tuple[0])
			case e.Term != "" && e.Sort != "Iface":
				elems = append(elems, e)
			default:
				return Val{}, false
			}
		}
	}
	if g.concrete {
		var parts []string
		i, k := 0, 0
		lit := ""
		flush := func() {
			if lit != "" {
				parts = append(parts, strLit(lit))
				lit = ""
			}
		}
		for i < len(format) {
			ch := format[i]
			if ch != '%' {
				lit += string(ch)
				i++
				continue
			}
			if i+1 >= len(format) {
				return Val{}, false
			}
			verb := format[i+1]
			i += 2
			if verb == '%' {
				lit += "%"
				continue
			}
			if k >= len(elems) {
				return Val{}, false
			}
			a := elems[k]
			k++
			flush()
			switch {
			case verb == 's' && a.Sort == "Str", verb == 'v' && a.Sort == "Str":
				parts = append(parts, a.Term)
			case (verb == 'd' || verb == 'v') && a.Sort == "Int":
				g.useTheory("strings")
				parts = append(parts, fmt.Sprintf("(itoa %s)", a.Term))
			case verb == 'x' && a.Sort == "Str":
				g.useTheory("strings")
				parts = append(parts, fmt.Sprintf("(hexenc %s)", a.Term))
			default:
				return Val{}, false
			}
		}
		flush()
		if k != len(elems) {
			return Val{}, false
		}
		term := strLit("")
		switch len(parts) {
		case 0:
		case 1:
			term = parts[0]
		default:
			term = "(str.++ " + strings.Join(parts, " ") + ")"
		}
		return Val{Sort: "Str", Term: g.def(f.prefix+rname, "Str", term), GoT: types.Typ[types.String]}, true
	}
	var sorts, terms []string
	for _, e := range elems {
		if e.Term == "" {
			return Val{}, false
		}
		sorts = append(sorts, e.Sort)
		terms = append(terms, e.Term)
	}
	if format == "%d" && len(elems) == 1 && elems[0].Sort == "Int" {
		// decimal rendering: the same symbol in both string modes (strconv.ParseInt inverts it, theory strings)
		g.useTheory("strings")
		return Val{Sort: "Str", Term: g.def(f.prefix+rname, "Str", fmt.Sprintf("(itoa %s)", elems[0].Term)), GoT: types.Typ[types.String]}, true
	}
	name := g.uf("sprintf_"+mangle(format), sorts, "Str")
	term := name
	if len(terms) > 0 {
		term = fmt.Sprintf("(%s %s)", name, strings.Join(terms, " "))
	}
	g.assumes["fmt.Sprintf with a constant format is a function of its arguments (uninterpreted in abstract string mode)"] = true
	return Val{Sort: "Str", Term: g.def(f.prefix+rname, "Str", term), GoT: types.Typ[types.String]}, true
}

func constantString(c *ssa.Const) string {
	if c.Value != nil && c.Value.Kind() == constant.String {
		return constant.StringVal(c.Value)
	}
	return ""
}

// decLiteral evaluates a decimal literal to the raw 18-decimal integer of sdk.Dec.
func decLiteral(s string) (string, bool) {
	neg := false
	if strings.HasPrefix(s, "-") {
		neg = true
		s = s[1:]
	}
	parts := strings.Split(s, ".")
	if len(parts) > 2 || len(parts[0]) == 0 {
		return "", false
	}
	frac := ""
	if len(parts) == 2 {
		frac = parts[1]
	}
	if len(frac) > 18 {
		return "", false
	}
	for _, ch := range parts[0] + frac {
		if ch < '0' || ch > '9' {
			return "", false
		}
	}
	digits := strings.TrimLeft(parts[0]+frac+strings.Repeat("0", 18-len(frac)), "0")
	if digits == "" {
		digits = "0"
	}
	if neg && digits != "0" {
		return "(- " + digits + ")", true
	}
	return digits, true
}

// codecCall models codec.BinaryCodec (protobuf) marshalling as an uninterpreted
// injective encoding per struct sort: unmarshal_S(marshal_S(x)) = x, and no
// encoding equals the nil byte slice (A-CODEC). Decoding bytes that were
// written for another type yields an unconstrained value of the target type.
func (f *Frame) codecCall(c *ssa.CallCommon, args []Val, instr ssa.Value, st *State, reach string, pos token.Pos) (Val, bool) {
	g := f.g
	full := c.Method.FullName()
	if !strings.HasPrefix(full, "(github.com/cosmos/cosmos-sdk/codec.BinaryCodec).") && !strings.HasPrefix(full, "(github.com/cosmos/cosmos-sdk/codec.Codec).") {
		return Val{}, false
	}
	name := c.Method.Name()
	structOf := func(v Val) (Val, string, bool) {
		if v.Ptr == nil {
			return Val{}, "", false
		}
		var el types.Type
		if v.GoT != nil {
			if pt, ok := v.GoT.Underlying().(*types.Pointer); ok {
				el = pt.Elem()
			}
		}
		if el == nil && v.Ptr.Cell != nil {
			el = v.Ptr.Cell.goT
		}
		lv := g.load(st, v.Ptr, el)
		if lv.Term == "" {
			return Val{}, "", false
		}
		return lv, lv.Sort, true
	}
	declare := func(srt string) { g.declareCodec(srt) }
	switch name {
	case "MustMarshal", "Marshal", "MustMarshalLengthPrefixed":
		v, srt, ok := structOf(args[1])
		if !ok {
			return Val{}, false
		}
		declare(srt)
		out := Val{Sort: "Str", Term: g.def(f.name(instr), "Str", fmt.Sprintf("(marshal_%s %s)", mangle(srt), v.Term)), GoT: types.NewSlice(types.Typ[types.Byte])}
		if name == "Marshal" {
			return Val{Tuple: []Val{out, {Sort: "Err", Term: "Err_nil"}}}, true
		}
		return out, true
	case "MustUnmarshal", "Unmarshal":
		curVal, srt, ok := structOf(args[2])
		if !ok {
			return Val{}, false
		}
		declare(srt)
		var el types.Type
		if args[2].Ptr.Cell != nil && len(args[2].Ptr.Path) == 0 {
			el = args[2].Ptr.Cell.goT
		}
		// protobuf decoding MERGES into its target: fields absent from the encoding (proto3 omits empty ones) keep what
		// the target held. Only a target that still holds its zero value ends up as the decoded message.
		decTerm := fmt.Sprintf("(unmarshal_%s %s)", mangle(srt), args[1].Term)
		if z := g.sorts.zero(srt, el); z != "" && !g.isZeroTerm(curVal.Term, z) {
			mf := g.uf("unmarshal_into_"+mangle(srt), []string{srt, "Str"}, srt)
			decTerm = fmt.Sprintf("(%s %s %s)", mf, curVal.Term, args[1].Term)
			g.note("decoding into a target that may already hold data (%s): protobuf merges, the result is not determined by the bytes alone", f.name(instr))
		}
		dec := g.def(f.name(instr)+"_dec", srt, decTerm)
		if el != nil {
			for _, inv := range g.typeInv(dec, el, 0) {
				g.assume(inv) // a decoded message is a well-formed Go value
			}
		}
		// slices inside a freshly decoded message are freshly allocated (offset 0), with the decoded contents
		if info := g.sorts.structs[srt]; info != nil {
			cur := dec
			for i, fld := range info.Fields {
				esort, isSlice := g.sorts.sliceEl[fld.Sort]
				if !isSlice {
					continue
				}
				h := g.sorts.heapFor(fld.Sort)
				loc := g.allocLoc(st)
				arr := g.fresh(f.name(instr)+"_"+fld.Name+"_arr", "(Array Int "+esort+")")
				src := fmt.Sprintf("(%s %s)", fld.Sel, dec)
				g.assume(fmt.Sprintf("(forall ((i Int)) (! (= (select %s i) (sget_%s %s %s i)) :pattern ((select %s i))))", arr, fld.Sort, g.heapGet(st, h), src, arr))
				capc := g.fresh(f.name(instr)+"_"+fld.Name+"_cap", "Int")
				g.assume(fmt.Sprintf("(>= %s (len_%s %s))", capc, fld.Sort, src))
				g.heapSet(st, h, fmt.Sprintf("(store %s %s %s)", g.heapGet(st, h), loc, arr))
				hdr := fmt.Sprintf("(mk_%s %s 0 (len_%s %s) %s)", fld.Sort, loc, fld.Sort, src, capc)
				cur = g.def(f.name(instr)+"_dec_"+fld.Name, srt, g.updatePath(cur, []pathStep{{srt, i}}, hdr))
			}
			dec = cur
		}
		g.store(st, args[2].Ptr, Val{Sort: srt, Term: dec, GoT: el})
		if name == "Unmarshal" {
			return g.freshVal(f.name(instr), types.Universe.Lookup("error").Type(), st), true
		}
		return Val{}, true
	}
	return Val{}, false
}

// worldAvailable: a world component whose record type lives in a package that
// is not loaded for this check cannot be referenced by the code under
// verification (the package is not among its dependencies).
func (g *Gen) worldAvailable(name string) bool {
	wc := g.w.world[name]
	if wc == nil {
		return false
	}
	if wc.Theory != "" && !g.uses[wc.Theory] {
		return false
	}
	for _, m := range sortNameRe.FindAllString(wc.Sort, -1) {
		if _, ok := g.sorts.structs[m]; ok {
			continue
		}
		if !g.sorts.ensureByName(m, g.w.lookupType) {
			return false
		}
	}
	return true
}

// applyIterates: a call of an iterator function f(..., closure). The closure is
// verified on its own against its contract; its `preserves` clauses are the
// invariant of the iteration: checked in the caller's state before the call
// and assumed after it, everything the closure may modify being havocked in
// between (A-ITER: the iterator applies the closure to the stored elements and
// does nothing else).
func (f *Frame) applyIterates(ct *Contract, fn *ssa.Function, args []Val, resT types.Type, st *State, reach string, pos token.Pos, rname string) Val {
	g := f.g
	ct.used = true
	if ct.PkgPath != "" {
		g.relied[ct.PkgPath+"::"+ct.Key] = true
	}
	g.trusted[fn.String()+" (iterator: applies the closure to each stored element, A-ITER)"] = true
	var clo *Closure
	for _, a := range args {
		if a.Clo != nil {
			clo = a.Clo
		}
	}
	if clo == nil {
		g.fail("%s: iterator call without a closure literal", relName(f.fn))
	}
	cct := g.lookupContract(clo.Fn)
	if cct == nil {
		g.fail("%s: the closure %s handed to an iterator has no contract", relName(f.fn), relName(clo.Fn))
	}
	bindClo := func(e *Env) {
		for i, fv := range clo.Fn.FreeVars {
			v := clo.Bindings[i]
			if v.Ptr != nil && v.Ptr.Cell != nil && len(v.Ptr.Path) == 0 {
				e.cellVars[fv.Name()] = v.Ptr.Cell
			} else {
				e.vars[fv.Name()] = v
			}
		}
		for _, l := range cct.Lets {
			e.lets[l.Name] = l.Expr
		}
		// captured variables renamed since the closure's contract was written (source-order alignment)
		if len(cct.Locals) > 0 {
			for k, v := range alignLocals(cct.Locals, orderedLocals(clo.Fn)) {
				if k != v {
					if e.alias == nil {
						e.alias = map[string]string{}
					}
					e.alias[k] = v
				}
			}
		}
	}
	for _, u := range cct.Uses {
		g.useTheory(u)
	}
	pre := st.clone()
	env := g.newEnv(pre, pre)
	bindClo(env)
	for _, c := range cct.Preserves {
		t := env.trBool(c.Expr)
		g.oblige("callpre", shortKey(relName(clo.Fn))+":"+c.Label+"_holds_before_the_iteration", f.props(), f.fn, reach, t, c.Src, pos)
	}
	// step relations: reflexive and transitive (checked on arbitrary states), hence valid across any number of calls
	if len(cct.Steps) > 0 {
		hav := func(s *State) {
			if cct.ModAll || len(cct.Modifies) == 0 {
				f.havocAll(s)
				for _, b := range clo.Bindings {
					f.havocReachable(b, s)
				}
				return
			}
			menv := g.newEnv(pre, pre)
			bindClo(menv)
			for _, m := range cct.Modifies {
				f.havocSpecTarget(m, menv, s)
			}
		}
		s2 := st.clone()
		hav(s2)
		s3 := s2.clone()
		hav(s3)
		rel := func(cur, old *State, c *Clause) string {
			e := g.newEnv(cur, old)
			bindClo(e)
			return e.trBool(c.Expr)
		}
		for _, c := range cct.Steps {
			g.oblige("callpre", shortKey(relName(clo.Fn))+":"+c.Label+"_is_reflexive", f.props(), f.fn, reach, rel(pre, pre, c), c.Src, pos)
			g.oblige("callpre", shortKey(relName(clo.Fn))+":"+c.Label+"_is_transitive", f.props(), f.fn, reach,
				implies(and(rel(s2, pre, c), rel(s3, s2, c)), rel(s3, pre, c)), c.Src, pos)
		}
	}
	// everything the closure may touch: its modifies clause when it has one, everything otherwise
	if cct.ModAll || len(cct.Modifies) == 0 {
		f.havocAll(st)
		for _, b := range clo.Bindings {
			f.havocReachable(b, st)
		}
	} else {
		menv := g.newEnv(pre, pre)
		bindClo(menv)
		for _, m := range cct.Modifies {
			f.havocSpecTarget(m, menv, st)
		}
	}
	post := g.newEnv(st, pre)
	bindClo(post)
	for _, c := range cct.Preserves {
		g.assume(implies(reach, post.trBool(c.Expr)))
	}
	for _, c := range cct.Steps {
		g.assume(implies(reach, post.trBool(c.Expr)))
	}
	if resT == nil {
		return Val{}
	}
	if tup, ok := resT.(*types.Tuple); ok && tup.Len() == 0 {
		return Val{}
	}
	return g.freshVal(f.prefix+rname, resT, st)
}

// jsonMapFuncs declares the JSON model of map[string]string: jmap_enc (contents -> text), jmap_dec (text -> contents),
// jmap_ok (text parses). Decoding inverts encoding (A-DEP: encoding/json).
func (g *Gen) jsonMapFuncs() (enc, dec, ok string) {
	mv := "MapVal_Str_Str"
	if _, done := g.ufDecl["jmap_enc"]; !done {
		g.uf("jmap_enc", []string{mv}, "Str")
		g.uf("jmap_dec", []string{"Str"}, mv)
		g.uf("jmap_ok", []string{"Str"}, "Bool")
		g.emit(fmt.Sprintf("(assert (forall ((m %s)) (! (and (jmap_ok (jmap_enc m)) (= (jmap_dec (jmap_enc m)) m)) :pattern ((jmap_enc m)))))", mv))
	}
	return "jmap_enc", "jmap_dec", "jmap_ok"
}

// declareCodec declares the protobuf model of a message sort: marshal_S / unmarshal_S, uninterpreted, decoding inverts
// encoding, encodings are never the nil slice (A-CODEC). The function symbols are declared ahead of the theory text
// (theory modules may mention them), the axiom with the function body.
func (g *Gen) declareCodec(srt string) {
	g.useTheory("kv")
	m := "marshal_" + mangle(srt)
	if _, ok := g.ufDecl[m]; ok {
		return
	}
	g.ufDecl[m] = "pre"
	g.ufDecl["un"+m] = "pre"
	g.preTheory = append(g.preTheory, fmt.Sprintf("(declare-fun %s (%s) Str)", m, srt), fmt.Sprintf("(declare-fun un%s (Str) %s)", m, srt))
	g.emit(fmt.Sprintf("(assert (forall ((x %s)) (! (and (= (un%s (%s x)) x) (not (= (%s x) Bytes_nil))) :pattern ((%s x)))))", srt, m, m, m, m))
	g.assumes["A-CODEC: protobuf Marshal is injective per message type and Unmarshal inverts it (uninterpreted encoding)"] = true
}

// splitConj: the top-level conjuncts of a spec expression
func splitConj(e ast.Expr) []ast.Expr {
	if p, ok := e.(*ast.ParenExpr); ok {
		return splitConj(p.X)
	}
	if b, ok := e.(*ast.BinaryExpr); ok && b.Op == token.LAND {
		return append(splitConj(b.X), splitConj(b.Y)...)
	}
	return []ast.Expr{e}
}

// mentionsAny: does the expression mention one of the names as a free identifier?
func mentionsAny(e ast.Expr, names map[string]bool) bool {
	found := false
	ast.Inspect(e, func(n ast.Node) bool {
		if id, ok := n.(*ast.Ident); ok && names[id.Name] {
			found = true
		}
		return !found
	})
	return found
}

// adoptLoops: a contract for an uncontracted helper made of the caller's loop clauses that no loop of the caller's own
// body claims (nil if the counts do not fit).
func (f *Frame) adoptLoops(fn *ssa.Function) *Contract {
	n := 0
	for _, b := range fn.Blocks {
		for _, p := range b.Preds {
			if isBackEdge(p, b) {
				n++
				break
			}
		}
	}
	if n == 0 || f.spec == nil {
		return nil
	}
	var ords []int
	for o := range f.spec.Loops {
		if o >= len(f.loopOrd)+f.adoptedLoops {
			ords = append(ords, o)
		}
	}
	sort.Ints(ords)
	if len(ords) < n {
		return nil
	}
	c := *f.spec
	c.Loops = map[int]*LoopSpec{}
	for i := 0; i < n; i++ {
		c.Loops[i] = f.spec.Loops[ords[i]]
	}
	c.adopted = true
	f.adoptedLoops += n
	return &c
}

// sourceName: the source-level variable an SSA value is the current value of ("" if none)
func (f *Frame) sourceName(v ssa.Value) string {
	if u, ok := v.(*ssa.UnOp); ok && u.Op == token.MUL {
		switch x := u.X.(type) {
		case *ssa.Alloc:
			return x.Comment
		case *ssa.FreeVar:
			return x.Name()
		}
	}
	if p, ok := v.(*ssa.Parameter); ok {
		return p.Name()
	}
	for _, b := range f.fn.Blocks {
		for _, ins := range b.Instrs {
			if dr, ok := ins.(*ssa.DebugRef); ok && !dr.IsAddr && dr.X == v {
				if id, ok := dr.Expr.(*ast.Ident); ok {
					return id.Name
				}
			}
		}
	}
	return ""
}

// varargsLen: for append(s, x1, ..., xn) written with individual elements, n; 0 for a spread or an unknown shape
func varargsLen(c *ssa.CallCommon) int {
	if len(c.Args) != 2 {
		return 0
	}
	sl, ok := c.Args[1].(*ssa.Slice)
	if !ok || sl.Low != nil || sl.High != nil {
		return 0
	}
	al, ok := sl.X.(*ssa.Alloc)
	if !ok || al.Comment != "varargs" {
		return 0
	}
	if at, ok := al.Type().(*types.Pointer).Elem().Underlying().(*types.Array); ok {
		return int(at.Len())
	}
	return 0
}

// isZeroTerm: is the term (after following the definitions emitted so far) syntactically the zero value z?
func (g *Gen) isZeroTerm(term, z string) bool {
	for i := 0; i < 6; i++ {
		if term == z {
			return true
		}
		def := ""
		pre := "(assert (= " + term + " "
		for j := len(g.buf) - 1; j >= 0; j-- {
			if strings.HasPrefix(g.buf[j], pre) {
				def = strings.TrimSuffix(g.buf[j][len(pre):], "))")
				break
			}
		}
		if def == "" {
			return false
		}
		term = def
	}
	return false
}

// ---------------------------------------------------------------------------
// store iterators (A-ITER made explicit): sdk.KVStorePrefixIterator(store, p) enumerates, in ascending key order,
// exactly the entries of the store (as it is when the iterator is created) whose key starts with the store's own prefix
// followed by p. The enumeration is an uninterpreted function from positions to full keys with these three properties;
// Valid/Next/Value/Key/Close walk it. In contracts: iterpos, rangekey(j), rangecount.

type kvIter struct {
	cell   *Cell  // position: number of Next calls so far
	cnt    string // number of entries
	kv0    string // the store when the iterator was created
	prefix string // full prefix enumerated
	sp     string // the store's own prefix (stripped from Key())
	inv    string // position of a key in the enumeration
}

func (f *Frame) kvIterator(args []Val, instr ssa.Value, st *State) (Val, bool) {
	g := f.g
	if len(args) != 2 || g.w.world["W.kv"] == nil {
		return Val{}, false
	}
	g.useTheory("kv")
	sp := ""
	switch args[0].Sort {
	case "Str":
		sp = args[0].Term
	case "Iface":
		sp = fmt.Sprintf("(store_prefix %s)", args[0].Term)
	default:
		return Val{}, false
	}
	pfx := args[1].Term
	if pfx == "Bytes_nil" || pfx == "" {
		pfx = strLit("")
	}
	if args[1].Sort != "Str" {
		return Val{}, false
	}
	full := g.def(f.name(instr)+"_prefix", "Str", fmt.Sprintf("(str_cat %s %s)", sp, pfx))
	kv0 := g.heapGet(st, "W.kv")
	en := g.uf(f.name(instr)+"_enum", []string{"Int"}, "Str")
	cnt := g.fresh(f.name(instr)+"_count", "Int")
	optS := g.sorts.ensureOption("Str")
	g.assume(fmt.Sprintf("(>= %s 0)", cnt))
	// every enumerated key is present and has the prefix
	g.assume(fmt.Sprintf("(forall ((i Int)) (! (=> (and (<= 0 i) (< i %s)) (and ((_ is some_%s) (select %s (%s i))) (str_prefixof %s (%s i)))) :pattern ((%s i))))", cnt, optS, kv0, en, full, en, en))
	// ascending, hence without repetition
	g.assume(fmt.Sprintf("(forall ((i Int) (j Int)) (! (=> (and (<= 0 i) (< i j) (< j %s)) (and (str_lt (%s i) (%s j)) (not (= (%s i) (%s j))))) :pattern ((%s i) (%s j))))", cnt, en, en, en, en, en, en))
	// every present key with the prefix is enumerated
	inv := g.uf(f.name(instr)+"_index", []string{"Str"}, "Int")
	g.assume(fmt.Sprintf("(forall ((k Str)) (! (=> (and ((_ is some_%s) (select %s k)) (str_prefixof %s k)) (and (<= 0 (%s k)) (< (%s k) %s) (= (%s (%s k)) k))) :pattern ((%s k))))", optS, kv0, full, inv, inv, cnt, en, inv, inv))
	cell := g.newCell(f.prefix+instr.Name()+"_pos", "Int", types.Typ[types.Int])
	st.cells[cell] = Val{Sort: "Int", Term: "0"}
	if g.kvIters == nil {
		g.kvIters = map[string]*kvIter{}
	}
	g.kvIters[en] = &kvIter{cell: cell, cnt: cnt, kv0: kv0, prefix: full, sp: sp, inv: inv}
	g.trusted["store iterator (A-ITER: enumerates exactly the entries under its prefix, in ascending key order, as of its creation)"] = true
	return Val{Sort: "Iter", Term: en, Tuple: []Val{{Sort: "Int", Term: cnt}}, GoT: instr.Type()}, true
}

func (f *Frame) kvIterMethod(name string, it Val, instr ssa.Value, st *State, resT types.Type) (Val, bool) {
	g := f.g
	ki := g.kvIters[it.Term]
	pos := g.load(st, &Addr{Cell: ki.cell}, nil)
	switch name {
	case "Valid":
		return Val{Sort: "Bool", Term: g.def(f.name(instr), "Bool", fmt.Sprintf("(< %s %s)", pos.Term, ki.cnt)), GoT: resT}, true
	case "Next":
		st.cells[ki.cell] = Val{Sort: "Int", Term: g.def(f.name(instr)+"_pos", "Int", fmt.Sprintf("(+ %s 1)", pos.Term))}
		return Val{}, true
	case "Value":
		optS := g.sorts.ensureOption("Str")
		return Val{Sort: "Str", Term: g.def(f.name(instr), "Str", fmt.Sprintf("(val_%s (select %s (%s %s)))", optS, ki.kv0, it.Term, pos.Term)), GoT: resT}, true
	case "Key":
		k := g.fresh(f.name(instr), "Str")
		g.assume(fmt.Sprintf("(= (str_cat %s %s) (%s %s))", ki.sp, k, it.Term, pos.Term))
		return Val{Sort: "Str", Term: k, GoT: resT}, true
	case "Close":
		return Val{Sort: "Err", Term: "Err_nil", GoT: resT}, true
	case "Error":
		return Val{Sort: "Err", Term: "Err_nil", GoT: resT}, true
	}
	return Val{}, false
}
