package main

import (
	"encoding/json"
	"flag"
	"fmt"
	"os"
	"path/filepath"
	"sort"
	"strings"
)

func usage() {
	fmt.Fprintln(os.Stderr, `govc: contract-based deductive verifier for canine-chain (VCs from go/ssa, discharged by z3/cvc5)
usage:
  govc check -prop C13 [-tier quick|thorough] [-repo /repo] [-verif /verif]
  govc vc    -func 'x/jklmint/utils.GetMintForBlock' [-out dir]     (write the VCs of one function)
  govc list                                                       (contracts and the properties they serve)
  govc ssa   -func <key>                                          (dump SSA)`)
	os.Exit(2)
}

func main() {
	if len(os.Args) < 2 {
		usage()
	}
	cmd := os.Args[1]
	fs := flag.NewFlagSet(cmd, flag.ExitOnError)
	repo := fs.String("repo", "/repo", "repository root")
	verif := fs.String("verif", "/verif", "verification root")
	prop := fs.String("prop", "", "property id")
	tier := fs.String("tier", "quick", "quick|thorough")
	fnKey := fs.String("func", "", "function key")
	out := fs.String("out", "", "output directory for SMT files")
	timeout := fs.Int("timeout", 0, "per-solver timeout in seconds")
	par := fs.Int("par", 6, "obligations solved in parallel (each races three solvers)")
	keep := fs.Bool("keep", false, "keep SMT files of discharged obligations")
	fs.Parse(os.Args[2:])
	switch cmd {
	case "check":
		if *prop == "" {
			usage()
		}
		os.Exit(runCheck(*repo, *verif, *prop, *tier, *timeout, *par, *keep))
	case "conformance":
		n := 150
		if *tier == "thorough" {
			n = 1500
		}
		to := *timeout
		if to == 0 {
			to = 30
		}
		os.Exit(runConformance(*repo, *verif, n, to, *par))
	case "pins":
		os.Exit(runPins(*repo, *verif))
	case "vc", "ssa", "list", "locals":
		os.Exit(runDebug(cmd, *repo, *verif, *fnKey, *out, *timeout, *par))
	default:
		usage()
	}
}

// contractPackages returns the package patterns that hold contract files.
func contractPackages(repo string, contracts map[string]*Contract, only func(*Contract) bool) []string {
	set := map[string]bool{}
	for _, c := range contracts {
		if only != nil && !only(c) {
			continue
		}
		rel := strings.TrimPrefix(c.PkgPath, modPath)
		set["."+rel] = true
	}
	var out []string
	for p := range set {
		out = append(out, p)
	}
	sort.Strings(out)
	return out
}

func runDebug(cmd, repo, verif, fnKey, out string, timeout, par int) int {
	cs, _, err := loadRepoContracts(repo)
	if err != nil {
		fmt.Fprintln(os.Stderr, "error:", err)
		return 2
	}
	if cmd == "list" {
		var ks []string
		for k := range cs {
			ks = append(ks, k)
		}
		sort.Strings(ks)
		for _, k := range ks {
			c := cs[k]
			fmt.Printf("%-90s props=%v ensures=%d requires=%d trusted=%v\n", strings.TrimPrefix(k, modPath+"/"), c.Props, len(c.Ensures), len(c.Requires), c.Trusted)
		}
		return 0
	}
	pats := contractPackages(repo, cs, func(c *Contract) bool {
		return fnKey == "" || strings.Contains(strings.TrimPrefix(c.PkgPath, modPath+"/")+"."+c.Key, fnKey)
	})
	if len(pats) == 0 {
		// no contract: treat fnKey as "<pkg dir>.<name>"
		i := strings.LastIndex(fnKey, ".")
		for i > 0 && strings.ContainsAny(fnKey[:i], "()") {
			i = strings.LastIndex(fnKey[:i], ".")
		}
		if i > 0 {
			pats = []string{"./" + strings.TrimPrefix(fnKey[:i], "./")}
		}
	}
	w, err := loadWorkspace(repo, verif, pats)
	if err != nil {
		fmt.Fprintln(os.Stderr, "error:", err)
		return 2
	}
	if cmd == "locals" {
		// one line per contract: key <TAB> locals in source order (input of bin/gen-locals)
		var ks []string
		for k := range w.contracts {
			ks = append(ks, k)
		}
		sort.Strings(ks)
		for _, k := range ks {
			c := w.contracts[k]
			if c.IsLemma {
				continue
			}
			fn := w.funcs[k]
			if fn == nil && c.View != "" {
				fn = w.funcs[strings.TrimSuffix(k, "@"+c.View)]
			}
			if fn == nil {
				continue
			}
			var ps []string
			for _, p := range fn.Params {
				n := p.Name()
				if n == "" {
					n = "_"
				}
				ps = append(ps, n)
			}
			locs := orderedLocals(fn)
			if c.Trusted {
				locs = nil // a trusted contract speaks about parameters and results only
			}
			fmt.Printf("%s\t%s\t%s\t%s\n", c.File, c.Key, strings.Join(locs, " "), strings.Join(ps, " "))
		}
		return 0
	}
	if cmd == "ssa" {
		for k, fn := range w.funcs {
			if strings.Contains(strings.TrimPrefix(k, modPath+"/"), fnKey) || strings.Contains(strings.ReplaceAll(strings.TrimPrefix(k, modPath+"/"), "::", "."), fnKey) {
				fn.WriteTo(os.Stdout)
			}
		}
		return 0
	}
	if out == "" {
		out = filepath.Join(verif, "out", "vc")
	}
	if timeout == 0 {
		timeout = 10
	}
	var results []*FuncResult
	var ks []string
	for k := range w.contracts {
		ks = append(ks, k)
	}
	sort.Strings(ks)
	for _, k := range ks {
		c := w.contracts[k]
		full := strings.TrimPrefix(c.PkgPath, modPath+"/") + "." + c.Key
		if !strings.Contains(full, fnKey) || c.Trusted {
			continue
		}
		r := w.verifyFunction(k, c)
		results = append(results, r)
	}
	os.RemoveAll(out)
	solveAll(out, results, timeout, par)
	rc := 0
	for _, r := range results {
		fmt.Printf("== %s (%d obligations)\n", r.Key, len(r.Obls))
		if r.Err != "" {
			fmt.Printf("   ENGINE ERROR: %s\n", r.Err)
			rc = 1
		}
		for _, o := range r.Obls {
			status := o.Verdict
			okv := (o.Verdict == "unsat" && !o.ExpectSat) || ((o.Verdict == "sat" || o.Verdict == "sat-ground") && o.ExpectSat)
			if !okv {
				rc = 1
				status = "**" + status + "**"
			}
			fmt.Printf("   %-10s %-8s %6.2fs %s  [%s] %s\n", status, o.Solver, o.Time, o.Name, strings.Join(o.Props, ","), o.Pos)
			if !okv && o.Output != "" {
				fmt.Printf("      file: %s\n", o.File)
			}
		}
		for _, n := range r.Notes {
			fmt.Printf("   note: %s\n", n)
		}
		for _, n := range r.Unmodelled {
			fmt.Printf("   unmodelled call: %s\n", n)
		}
		for _, n := range r.Inlined {
			fmt.Printf("   inlined: %s\n", n)
		}
	}
	return rc
}

// runPins rewrites /verif/props/pins.json: the body fingerprints of every trusted repository contract without a verified
// counterpart. To be run (and the diff reviewed) when such a function is changed on purpose.
func runPins(repo, verif string) int {
	var pats []string
	for _, m := range append(append([]string{}, customModules...), "jklmint") {
		pats = append(pats, "./x/"+m, "./x/"+m+"/keeper", "./x/"+m+"/types")
	}
	pats = append(pats, "./types", "./wasmbinding")
	w, err := loadWorkspace(repo, verif, pats)
	if err != nil {
		fmt.Println("pins: ", err)
		return 2
	}
	var ks []string
	for k := range w.contracts {
		ks = append(ks, k)
	}
	pins := w.pinnedTrusted(ks)
	b, _ := json.MarshalIndent(pins, "", " ")
	os.WriteFile(filepath.Join(verif, "props", "pins.json"), append(b, '\n'), 0o644)
	fmt.Printf("pins: %d trusted bodies pinned\n", len(pins))
	return 0
}
