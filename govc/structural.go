package main

import (
	"crypto/sha256"
	"encoding/hex"
	"encoding/json"
	"fmt"
	"go/ast"
	"go/token"
	"go/types"
	"os"
	"path/filepath"
	"sort"
	"strings"

	"golang.org/x/tools/go/ssa"
)

// Structural obligations: facts decided by inspecting the typed SSA rather
// than by an SMT query (enumeration of message types, registration calls,
// absence of forbidden primitives). They are reported as obligations
// discharged by "ssa-scan".

func structural(name, label string, props []string, ok bool, detail string) *Obligation {
	o := &Obligation{Name: name + "#structural:" + label, Kind: "structural", Label: label, Props: props, Func: name, GoalSrc: detail, Solver: "ssa-scan"}
	if ok {
		o.Verdict = "unsat"
	} else {
		o.Verdict = "sat"
		o.Output = detail
	}
	return o
}

var customModules = []string{"storage", "rns", "filetree", "oracle", "notifications"}

// structuralC11: every request type of every MsgServer interface of the custom
// modules has a GetSigners contract, and RegisterInterfaces registers it.
func (w *Workspace) structuralC11() *FuncResult {
	res := &FuncResult{Key: "custom modules: message enumeration"}
	total := 0
	for _, mod := range customModules {
		path := modPath + "/x/" + mod + "/types"
		sp := w.ssaPkgs[path]
		if sp == nil {
			res.Obls = append(res.Obls, structural("x/"+mod+"/types", "package_loaded", []string{"C11"}, false, "package "+path+" is not loaded"))
			continue
		}
		obj := sp.Pkg.Scope().Lookup("MsgServer")
		if obj == nil {
			res.Obls = append(res.Obls, structural("x/"+mod+"/types", "msgserver_interface", []string{"C11"}, false, "no MsgServer interface"))
			continue
		}
		iface, ok := obj.Type().Underlying().(*types.Interface)
		if !ok {
			continue
		}
		registered := map[string]bool{}
		viaServiceDesc := false // msgservice.RegisterMsgServiceDesc(registry, &_Msg_serviceDesc) registers every request type of the service
		if fn := sp.Func("RegisterInterfaces"); fn != nil {
			for _, b := range fn.Blocks {
				for _, ins := range b.Instrs {
					if a, ok := ins.(*ssa.Alloc); ok {
						if n, ok := a.Type().(*types.Pointer).Elem().(*types.Named); ok {
							registered[n.Obj().Name()] = true
						}
					}
					if c, ok := ins.(*ssa.Call); ok {
						if callee := c.Common().StaticCallee(); callee != nil && callee.String() == "github.com/cosmos/cosmos-sdk/types/msgservice.RegisterMsgServiceDesc" && len(c.Common().Args) == 2 {
							if g, ok := c.Common().Args[1].(*ssa.Global); ok && g.Name() == "_Msg_serviceDesc" && g.Pkg == sp {
								viaServiceDesc = true
							}
						}
					}
				}
			}
		}
		// the module must install its message server
		served := false
		if mp := w.ssaPkgs[modPath+"/x/"+mod]; mp != nil {
			if am, ok := mp.Pkg.Scope().Lookup("AppModule").(*types.TypeName); ok {
				if m := w.prog.LookupMethod(am.Type(), mp.Pkg, "RegisterServices"); m != nil {
					for _, b := range m.Blocks {
						for _, ins := range b.Instrs {
							if c, ok := ins.(*ssa.Call); ok {
								if callee := c.Common().StaticCallee(); callee != nil && callee.Name() == "RegisterMsgServer" && callee.Pkg == sp {
									served = true
								}
							}
						}
					}
				}
			}
			res.Obls = append(res.Obls, structural("x/"+mod+".AppModule", "message_server_installed", []string{"C11"}, served,
				"AppModule.RegisterServices of x/"+mod+" must call types.RegisterMsgServer"))
		}
		var names []string
		for i := 0; i < iface.NumMethods(); i++ {
			sig := iface.Method(i).Type().(*types.Signature)
			if sig.Params().Len() != 2 {
				continue
			}
			pt, ok := sig.Params().At(1).Type().(*types.Pointer)
			if !ok {
				continue
			}
			n, ok := pt.Elem().(*types.Named)
			if !ok {
				continue
			}
			names = append(names, n.Obj().Name())
		}
		sort.Strings(names)
		for _, n := range names {
			total++
			key := path + "::(*" + n + ").GetSigners"
			ct := w.contracts[key]
			has := ct != nil && len(ct.Ensures) > 0 && contains(ct.Props, "C11") && w.funcs[key] != nil
			res.Obls = append(res.Obls, structural("x/"+mod+"/types."+n, "getsigners_under_contract", []string{"C11"}, has,
				fmt.Sprintf("message type %s of the %s MsgServer must have a GetSigners contract (signer == creator)", n, mod)))
			res.Obls = append(res.Obls, structural("x/"+mod+"/types."+n, "registered_as_sdk_msg", []string{"C11"}, registered[n] || viaServiceDesc,
				fmt.Sprintf("RegisterInterfaces of x/%s must register %s", mod, n)))
		}
	}
	res.Obls = append(res.Obls, structural("custom modules", "message_types_enumerated", []string{"C11"}, total > 0, fmt.Sprintf("%d message types enumerated from the MsgServer interfaces", total)))
	res.Notes = append(res.Notes, fmt.Sprintf("%d message types enumerated from the MsgServer interfaces of %s", total, strings.Join(customModules, ", ")))
	return res
}

// structuralC05: the Begin/EndBlock hooks of the custom modules either do
// nothing (no call, no panic-capable instruction) or only call the module's
// BeginBlocker, which is under a nopanic contract.
func (w *Workspace) structuralC05() *FuncResult {
	res := &FuncResult{Key: "custom modules: block hooks"}
	for _, mod := range append(append([]string{}, customModules...), "jklmint") {
		mp := w.ssaPkgs[modPath+"/x/"+mod]
		if mp == nil {
			res.Obls = append(res.Obls, structural("x/"+mod, "package_loaded", []string{"C05"}, false, "package x/"+mod+" is not loaded"))
			continue
		}
		am, ok := mp.Pkg.Scope().Lookup("AppModule").(*types.TypeName)
		if !ok {
			res.Obls = append(res.Obls, structural("x/"+mod, "appmodule_found", []string{"C05"}, false, "no AppModule type"))
			continue
		}
		for _, hook := range []string{"BeginBlock", "EndBlock"} {
			m := w.prog.LookupMethod(am.Type(), mp.Pkg, hook)
			if m == nil {
				res.Obls = append(res.Obls, structural("x/"+mod+".AppModule."+hook, "hook_found", []string{"C05"}, false, "method not found"))
				continue
			}
			ok, why := true, "no call and no instruction that can panic"
			for _, b := range m.Blocks {
				for _, ins := range b.Instrs {
					switch x := ins.(type) {
					case *ssa.DebugRef, *ssa.Return, *ssa.Alloc, *ssa.Jump, *ssa.Store, *ssa.FieldAddr, *ssa.Field:
					case *ssa.UnOp:
					case *ssa.MakeSlice, *ssa.Slice:
					case *ssa.Call:
						callee := x.Common().StaticCallee()
						key := ""
						if callee != nil && callee.Pkg != nil {
							key = callee.Pkg.Pkg.Path() + "::" + relName(callee)
						}
						ct := w.contracts[key]
						if callee != nil && callee.Name() == "BeginBlocker" && callee.Pkg == mp && ct != nil && ct.NoPanic && contains(ct.Props, "C05") {
							why = "only calls " + mod + ".BeginBlocker, which is under a nopanic contract"
						} else {
							ok, why = false, "calls "+x.Common().String()+" which is not a BeginBlocker under a nopanic contract"
						}
					default:
						ok, why = false, fmt.Sprintf("instruction %T (%s) may panic or have effects", ins, ins.String())
					}
				}
			}
			res.Obls = append(res.Obls, structural("x/"+mod+".AppModule."+hook, "hook_cannot_panic_outside_contracts", []string{"C05"}, ok, why))
		}
	}
	return res
}

// writerRule: a module-level frame condition. Every call of one of the
// writer functions (matched by method or function name) made from the listed
// packages must sit in a function that is itself under a (non-trusted)
// contract serving the property, so that no unverified path can write the
// state the property is about. Functions in `allow` are accepted with the
// stated assumption (genesis import, one-time migrations).
type writerRule struct {
	Prop    string
	What    string
	Pkgs    []string          // package paths relative to the module
	Writers map[string]bool   // callee names (method or function name)
	Recv    map[string]bool   // accepted receiver type names (empty: any)
	Allow   map[string]string // enclosing function (pkg-relative key) -> assumption
	View    string            // when set, the contract of that view (key@view) is accepted as well
}

var writerRules = map[string][]writerRule{
	"C10": {{
		Prop: "C10", What: "file-tree entries",
		Pkgs:    []string{"x/filetree/keeper", "x/filetree"},
		Writers: map[string]bool{"SetFiles": true, "RemoveFiles": true},
		Recv:    map[string]bool{"Keeper": true, "msgServer": true},
		Allow: map[string]string{
			"x/filetree.InitGenesis": "genesis import (C19); not a transaction path",
		},
	}},
	"C17": {
		{
			Prop: "C17", What: "the raw store of x/storage", View: "store",
			Pkgs:    []string{"x/storage/keeper", "x/storage"},
			Writers: map[string]bool{"Set": true, "Delete": true},
			Recv:    map[string]bool{"Store": true, "KVStore": true},
			Allow:   map[string]string{},
		},
		{
			Prop: "C17", What: "single file-index entries", View: "store",
			Pkgs:    []string{"x/storage/keeper", "x/storage"},
			Writers: map[string]bool{"setFilePrimary": true, "setFileSecondary": true, "removeFilePrimary": true, "removeFileSecondary": true},
			Recv:    map[string]bool{"Keeper": true, "msgServer": true},
			Allow:   map[string]string{},
		},
		{
			Prop: "C17", What: "stored files, prover lists and proof records",
			Pkgs:    []string{"x/storage/keeper", "x/storage/types", "x/storage"},
			Writers: map[string]bool{"SetFile": true, "RemoveFile": true, "SetProof": true, "RemoveProof": true, "RemoveProofWithBuiltKey": true, "AddProver": true, "RemoveProver": true, "RemoveProverWithKey": true, "Save": true},
			Recv:    map[string]bool{"Keeper": true, "msgServer": true, "ProofLoader": true, "UnifiedFile": true, "FileProof": true},
			Allow: map[string]string{
				"x/storage.InitGenesis":                       "genesis import (C19); not a transaction path",
				"x/storage/types.(*FileProof).Save":           "wrapper of SetProof without callers in the module",
				"x/storage/types.(*UnifiedFile).Save":         "wrapper of SetFile; its only caller RemoveProverWithKey is under contract (it is inlined there)",
				"x/storage/types.(*UnifiedFile).RemoveProver": "wrapper of RemoveProverWithKey with the key built by MakeProofKey; inlined at its call sites (DoReport)",
			},
		},
	},
	"C14": {{
		Prop: "C14", What: "attestation and report forms",
		Pkgs:    []string{"x/storage/keeper", "x/storage"},
		Writers: map[string]bool{"SetAttestationForm": true, "SetReportForm": true, "RemoveAttestation": true, "RemoveReport": true, "RemoveAllAttestation": true, "RemoveAllReport": true},
		Recv:    map[string]bool{"Keeper": true, "msgServer": true},
		Allow: map[string]string{
			"x/storage.InitGenesis": "genesis import writes the exported forms back (C19); not a transaction path",
		},
	}},
	"C13": {{
		Prop: "C13", What: "minted-block records",
		Pkgs:    []string{"x/jklmint/keeper", "x/jklmint"},
		Writers: map[string]bool{"SetMintedBlock": true},
		Recv:    map[string]bool{"Keeper": true, "Migrator": true},
		Allow:   map[string]string{},
	}},
	"C09": {{
		Prop: "C09", What: "bid records",
		Pkgs:    []string{"x/rns/keeper", "x/rns"},
		Writers: map[string]bool{"SetBids": true, "RemoveBids": true},
		Recv:    map[string]bool{"Keeper": true, "msgServer": true},
		Allow: map[string]string{
			"x/rns.InitGenesis": "genesis import (C19); not a transaction path",
		},
	}},
	"C08": {{
		Prop: "C08", What: "name records and listings",
		Pkgs:    []string{"x/rns/keeper", "x/rns"},
		Writers: map[string]bool{"SetNames": true, "RemoveNames": true, "SetForsale": true, "RemoveForsale": true},
		Recv:    map[string]bool{"Keeper": true, "msgServer": true},
		Allow: map[string]string{
			"x/rns.InitGenesis": "genesis import (C19); not a transaction path",
		},
	}},
	"C01": {{
		Prop: "C01", What: "proof records and prover lists",
		Pkgs:    []string{"x/storage/keeper", "x/storage/types", "x/storage"},
		Writers: map[string]bool{"SetProof": true, "AddProver": true, "Save": true, "SetProven": true, "ResetChunkWithProof": true, "ResetChunk": true},
		Recv:    map[string]bool{"Keeper": true, "ProofLoader": true, "UnifiedFile": true, "FileProof": true, "msgServer": true},
		Allow: map[string]string{
			"x/storage/types.(*FileProof).Save": "wrapper of SetProof without callers in the module (checked: its callers are scanned like any other writer)",
			"x/storage.InitGenesis":             "genesis import (C19); not a transaction path",
		},
	}},
}

func (w *Workspace) structuralWriters(prop string) *FuncResult {
	rules := writerRules[prop]
	if len(rules) == 0 {
		return nil
	}
	res := &FuncResult{Key: "module-level frame: writers of " + rules[0].What}
	for _, rule := range rules {
		for _, rel := range rule.Pkgs {
			sp := w.ssaPkgs[modPath+"/"+rel]
			if sp == nil {
				res.Obls = append(res.Obls, structural(rel, "package_loaded", []string{prop}, false, "package "+rel+" is not loaded"))
				continue
			}
			var fns []*ssa.Function
			seen := map[*ssa.Function]bool{}
			var add func(fn *ssa.Function)
			add = func(fn *ssa.Function) {
				if fn == nil || seen[fn] || len(fn.Blocks) == 0 {
					return
				}
				seen[fn] = true
				fns = append(fns, fn)
				for _, a := range fn.AnonFuncs {
					add(a)
				}
			}
			for _, m := range sp.Members {
				switch x := m.(type) {
				case *ssa.Function:
					add(x)
				case *ssa.Type:
					for _, t := range []types.Type{x.Type(), types.NewPointer(x.Type())} {
						ms := w.prog.MethodSets.MethodSet(t)
						for i := 0; i < ms.Len(); i++ {
							if fn := w.prog.MethodValue(ms.At(i)); fn != nil && fn.Pkg == sp && fn.Synthetic == "" {
								add(fn)
							}
						}
					}
				}
			}
			sort.Slice(fns, func(i, j int) bool { return fns[i].String() < fns[j].String() })
			for _, fn := range fns {
				top := fn
				for top.Parent() != nil {
					top = top.Parent()
				}
				if strings.HasSuffix(w.prog.Fset.Position(top.Pos()).Filename, "_test.go") {
					continue
				}
				topKey := rel + "." + relName(top)
				var hits []string
				for _, b := range fn.Blocks {
					for _, ins := range b.Instrs {
						c, ok := ins.(ssa.CallInstruction)
						if !ok {
							continue
						}
						cc := c.Common()
						name, recv := "", ""
						if cc.IsInvoke() {
							name = cc.Method.Name()
							if n, ok := cc.Value.Type().(*types.Named); ok {
								recv = n.Obj().Name()
							}
						} else if callee := cc.StaticCallee(); callee != nil {
							name = callee.Name()
							if r := callee.Signature.Recv(); r != nil {
								t := r.Type()
								if p, ok := t.(*types.Pointer); ok {
									t = p.Elem()
								}
								if n, ok := t.(*types.Named); ok {
									recv = n.Obj().Name()
								}
							}
						}
						if !rule.Writers[name] || (len(rule.Recv) > 0 && !rule.Recv[recv]) {
							continue
						}
						hits = append(hits, recv+"."+name)
					}
				}
				if len(hits) == 0 {
					continue
				}
				ct := w.contracts[modPath+"/"+rel+"::"+relName(top)]
				if rule.View != "" {
					if vc := w.contracts[modPath+"/"+rel+"::"+relName(top)+"@"+rule.View]; vc != nil && !vc.Trusted && contains(vc.Props, prop) {
						ct = vc
					}
				}
				label := "writer_under_contract:" + mangle(relName(top))
				if len(rules) > 1 {
					label = "writer_under_contract:" + mangle(rule.What) + ":" + mangle(relName(top))
				}
				switch {
				case ct != nil && !ct.Trusted && contractServes(ct, prop):
					res.Obls = append(res.Obls, structural(topKey, label, []string{prop}, true, fmt.Sprintf("calls %s; the function is under a %s contract", strings.Join(hits, ", "), prop)))
				case rule.Allow[topKey] != "":
					res.Notes = append(res.Notes, fmt.Sprintf("%s calls %s: accepted, %s", topKey, strings.Join(hits, ", "), rule.Allow[topKey]))
					res.Obls = append(res.Obls, structural(topKey, label, []string{prop}, true, "allow-listed: "+rule.Allow[topKey]))
				default:
					res.Obls = append(res.Obls, structural(topKey, label, []string{prop}, false, fmt.Sprintf("%s writes %s (calls %s) but is not under a contract serving %s: an unverified path could change the state the property is about", topKey, rule.What, strings.Join(hits, ", "), prop)))
				}
			}
		}
	}
	return res
}

// structuralC19: genesis coverage. For every custom module: (A) every function of the keeper that writes the raw
// store (a "setter": it calls Store.Set) and has a caller outside genesis import is reachable from InitGenesis, and
// (B) the table prefix it writes under is read in full (prefix iterator) by a function reachable from ExportGenesis.
// A table that is written by message handlers or block hooks but not exported/imported is lost on export/import.
func (w *Workspace) structuralC19() *FuncResult {
	res := &FuncResult{Key: "custom modules: genesis coverage"}
	mods := append(append([]string{}, customModules...), "jklmint")
	for _, mod := range mods {
		kp := w.ssaPkgs[modPath+"/x/"+mod+"/keeper"]
		mp := w.ssaPkgs[modPath+"/x/"+mod]
		if kp == nil || mp == nil {
			res.Obls = append(res.Obls, structural("x/"+mod, "package_loaded", []string{"C19"}, false, "packages of module "+mod+" are not loaded"))
			continue
		}
		var fns []*ssa.Function
		seen := map[*ssa.Function]bool{}
		var add func(fn *ssa.Function)
		add = func(fn *ssa.Function) {
			if fn == nil || seen[fn] || len(fn.Blocks) == 0 {
				return
			}
			if strings.HasSuffix(w.prog.Fset.Position(fn.Pos()).Filename, "_test.go") {
				return
			}
			seen[fn] = true
			fns = append(fns, fn)
			for _, a := range fn.AnonFuncs {
				add(a)
			}
		}
		for _, sp := range []*ssa.Package{kp, mp} {
			for _, m := range sp.Members {
				switch x := m.(type) {
				case *ssa.Function:
					add(x)
				case *ssa.Type:
					for _, t := range []types.Type{x.Type(), types.NewPointer(x.Type())} {
						ms := w.prog.MethodSets.MethodSet(t)
						for i := 0; i < ms.Len(); i++ {
							if fn := w.prog.MethodValue(ms.At(i)); fn != nil && fn.Pkg == sp && fn.Synthetic == "" {
								add(fn)
							}
						}
					}
				}
			}
		}
		// per function: prefixes opened, writes, full reads, static callees
		prefixes := map[*ssa.Function][]string{}
		writes := map[*ssa.Function]bool{}
		readsAll := map[*ssa.Function]bool{}
		callees := map[*ssa.Function][]*ssa.Function{}
		callers := map[*ssa.Function][]*ssa.Function{}
		encodes := map[*ssa.Function][]string{}
		decodes := map[*ssa.Function][]string{}
		for _, fn := range fns {
			top := fn
			for top.Parent() != nil {
				top = top.Parent()
			}
			for _, b := range fn.Blocks {
				for _, ins := range b.Instrs {
					ci, ok := ins.(ssa.CallInstruction)
					if !ok {
						continue
					}
					cc := ci.Common()
					if cc.IsInvoke() {
						switch cc.Method.Name() {
						case "Set":
							writes[top] = true
						case "Iterator", "ReverseIterator":
							readsAll[top] = true
						case "MustMarshal", "Marshal", "MustUnmarshal", "Unmarshal":
							// the record type stored in / decoded from the table
							for _, a := range cc.Args {
								if mi, ok := a.(*ssa.MakeInterface); ok {
									t := mi.X.Type()
									if pt, ok := t.Underlying().(*types.Pointer); ok {
										t = pt.Elem()
									}
									if n, ok := t.(*types.Named); ok {
										if strings.Contains(cc.Method.Name(), "Unmarshal") {
											decodes[top] = append(decodes[top], n.Obj().Name())
										} else {
											encodes[top] = append(encodes[top], n.Obj().Name())
										}
									}
								}
							}
						}
						continue
					}
					callee := cc.StaticCallee()
					if callee == nil {
						continue
					}
					switch {
					case callee.Name() == "KeyPrefix" && len(cc.Args) == 1:
						if c, ok := cc.Args[0].(*ssa.Const); ok {
							prefixes[top] = append(prefixes[top], constantString(c))
						}
					case callee.String() == "(github.com/cosmos/cosmos-sdk/store/prefix.Store).Set":
						writes[top] = true
					case callee.String() == "github.com/cosmos/cosmos-sdk/types.KVStorePrefixIterator" || callee.String() == "github.com/cosmos/cosmos-sdk/types.KVStoreReversePrefixIterator" ||
						callee.String() == "(github.com/cosmos/cosmos-sdk/store/prefix.Store).Iterator":
						readsAll[top] = true
					}
					if seen[callee] {
						callees[top] = append(callees[top], callee)
						callers[callee] = append(callers[callee], top)
					}
					// closures handed to iterator helpers run as part of the caller
					for _, a := range cc.Args {
						if mc, ok := a.(*ssa.MakeClosure); ok {
							if cf, ok := mc.Fn.(*ssa.Function); ok && seen[cf] {
								callees[top] = append(callees[top], cf)
							}
						}
					}
				}
			}
		}
		// a helper that only opens a table's store and hands it back makes its callers openers of that table
		for _, fn := range fns {
			top := fn
			for top.Parent() != nil {
				top = top.Parent()
			}
			for _, c := range callees[top] {
				if c != top && !writes[c] && !readsAll[c] && returnsStore(c) {
					for _, p := range prefixes[c] {
						dup := false
						for _, q := range prefixes[top] {
							if q == p {
								dup = true
							}
						}
						if !dup {
							prefixes[top] = append(prefixes[top], p)
						}
					}
				}
			}
		}
		reach := func(root *ssa.Function) map[*ssa.Function]bool {
			out := map[*ssa.Function]bool{}
			var visit func(fn *ssa.Function)
			visit = func(fn *ssa.Function) {
				if fn == nil || out[fn] {
					return
				}
				out[fn] = true
				for _, c := range callees[fn] {
					visit(c)
				}
			}
			visit(root)
			return out
		}
		find := func(name string) *ssa.Function {
			for _, sp := range []*ssa.Package{mp, kp} {
				if fn := sp.Func(name); fn != nil {
					return fn
				}
			}
			// keeper method
			for _, fn := range fns {
				if fn.Name() == name && fn.Signature.Recv() != nil {
					return fn
				}
			}
			return nil
		}
		initFn, expFn := find("InitGenesis"), find("ExportGenesis")
		if initFn == nil || expFn == nil {
			res.Obls = append(res.Obls, structural("x/"+mod, "genesis_functions_found", []string{"C19"}, false, "InitGenesis/ExportGenesis not found"))
			continue
		}
		// shape of the import loops: InitGenesis branches only in the headers of its range loops, so every element of
		// every list is handed to its setter (no filter, early exit or skipped element)
		{
			ok, why := true, "straight-line range loops only"
			for _, b := range initFn.Blocks {
				for _, ins := range b.Instrs {
					iff, isIf := ins.(*ssa.If)
					if !isIf {
						continue
					}
					cmp, isCmp := iff.Cond.(*ssa.BinOp)
					isRangeHeader := false
					if isCmp && cmp.Op == token.LSS {
						if lc, isCall := cmp.Y.(*ssa.Call); isCall {
							if bi, isB := lc.Call.Value.(*ssa.Builtin); isB && bi.Name() == "len" {
								isRangeHeader = true
							}
						}
					}
					if !isRangeHeader {
						ok, why = false, fmt.Sprintf("InitGenesis of x/%s branches on %s: some listed elements may not be imported", mod, iff.Cond.String())
					}
				}
			}
			res.Obls = append(res.Obls, structural("x/"+mod+".InitGenesis", "imports_every_listed_element", []string{"C19"}, ok, why))
		}
		fromInit, fromExp := reach(initFn), reach(expFn)
		table := func(fn *ssa.Function, types []string) []string {
			var out []string
			for _, p := range prefixes[fn] {
				t := ""
				if len(types) > 0 {
					t = types[0]
				}
				out = append(out, p+" ("+t+")")
			}
			return out
		}
		// tables read in full by ExportGenesis
		exported := map[string]bool{}
		for fn := range fromExp {
			if readsAll[fn] {
				for _, t := range table(fn, decodes[fn]) {
					exported[t] = true
				}
			}
		}
		// tables written by genesis import, grouped by the accessor InitGenesis calls: an accessor that writes several
		// tables from one element (primary entry + index) restores all of them when one of them is exported
		imported := map[string]bool{}
		for _, direct := range callees[initFn] {
			var ts []string
			anyExported := false
			for fn := range reach(direct) {
				if writes[fn] {
					for _, t := range table(fn, encodes[fn]) {
						ts = append(ts, t)
						if exported[t] {
							anyExported = true
						}
					}
				}
			}
			for _, t := range ts {
				imported[t] = true
				if anyExported {
					exported[t] = true
				}
			}
		}
		_ = fromInit
		// protobuf decoding merges into its target; a target reused across the records of an export loop leaks the
		// fields of one record into the next (proto3 omits empty fields from the encoding)
		{
			ok, why := true, "every decode on the export path writes into a variable allocated for that record"
			nDec := 0
			for fn := range fromExp {
				loops := map[*ssa.BasicBlock]map[*ssa.BasicBlock]bool{}
				for _, b := range fn.Blocks {
					for _, p := range b.Preds {
						if isBackEdge(p, b) {
							loops[b] = naturalLoop(b)
						}
					}
				}
				for _, b := range fn.Blocks {
					for _, ins := range b.Instrs {
						ci, isCall := ins.(ssa.CallInstruction)
						if !isCall {
							continue
						}
						cc := ci.Common()
						name := ""
						if cc.IsInvoke() {
							name = cc.Method.Name()
						} else if c := cc.StaticCallee(); c != nil {
							name = c.Name()
						}
						if name != "MustUnmarshal" && name != "Unmarshal" {
							continue
						}
						nDec++
						for _, a := range cc.Args {
							v := a
							if mi, isMI := v.(*ssa.MakeInterface); isMI {
								v = mi.X
							}
							al, isAlloc := v.(*ssa.Alloc)
							if !isAlloc {
								continue
							}
							for h, body := range loops {
								if body[b] && !body[al.Block()] {
									ok, why = false, fmt.Sprintf("%s decodes the records of a loop (header block %d) into the variable %s declared outside the loop: fields missing from one record's encoding keep the previous record's values in the export", relName(fn), h.Index, al.Comment)
								}
							}
						}
					}
				}
			}
			if ok {
				why = fmt.Sprintf("%s (%d decodes checked)", why, nDec)
			}
			res.Obls = append(res.Obls, structural("x/"+mod+".ExportGenesis", "decodes_each_record_into_a_fresh_target", []string{"C19"}, ok, why))
		}
		// Validate must tell the records of a list apart exactly as the store does: an exported state lists what the
		// store held side by side, so a duplicate test on any other key can reject it (or accept a list the import
		// then collapses)
		if tp := w.ssaPkgs[modPath+"/x/"+mod+"/types"]; tp != nil {
			keyCalls := func(fn *ssa.Function, visit func(k *ssa.Function, cc *ssa.CallCommon)) {
				for _, b := range fn.Blocks {
					for _, ins := range b.Instrs {
						if ci, ok := ins.(ssa.CallInstruction); ok {
							if k := ci.Common().StaticCallee(); k != nil && k.Pkg == tp && strings.HasSuffix(k.Name(), "Key") && k.Name() != "KeyPrefix" {
								visit(k, ci.Common())
							}
						}
					}
				}
			}
			named := func(t types.Type) string {
				if pt, ok := t.Underlying().(*types.Pointer); ok {
					t = pt.Elem()
				}
				if n, ok := t.(*types.Named); ok && n.Obj().Pkg() != nil && n.Obj().Pkg().Path() == tp.Pkg.Path() {
					return n.Obj().Name()
				}
				return ""
			}
			storeKeys := map[string]map[string]bool{} // record type -> key builders used by the accessor genesis import calls
			for _, direct := range callees[initFn] {
				ps := direct.Signature.Params()
				if ps.Len() == 0 {
					continue
				}
				T := named(ps.At(ps.Len() - 1).Type())
				if T == "" {
					continue
				}
				for fn := range reach(direct) {
					keyCalls(fn, func(k *ssa.Function, _ *ssa.CallCommon) {
						if storeKeys[T] == nil {
							storeKeys[T] = map[string]bool{}
						}
						storeKeys[T][k.Name()] = true
					})
				}
			}
			var validate *ssa.Function
			if gt, ok := tp.Members["GenesisState"].(*ssa.Type); ok {
				for _, t := range []types.Type{gt.Type(), types.NewPointer(gt.Type())} {
					ms := w.prog.MethodSets.MethodSet(t)
					for i := 0; i < ms.Len(); i++ {
						if fn := w.prog.MethodValue(ms.At(i)); fn != nil && fn.Name() == "Validate" && fn.Synthetic == "" {
							validate = fn
						}
					}
				}
			}
			if validate != nil {
				var recOf func(v ssa.Value, depth int) string
				recOf = func(v ssa.Value, depth int) string {
					if depth > 8 || v == nil {
						return ""
					}
					switch x := v.(type) {
					case *ssa.UnOp:
						return recOf(x.X, depth+1)
					case *ssa.FieldAddr:
						if n := named(x.X.Type()); n != "" && n != "GenesisState" {
							return n
						}
						return recOf(x.X, depth+1)
					case *ssa.Field:
						if n := named(x.X.Type()); n != "" && n != "GenesisState" {
							return n
						}
						return recOf(x.X, depth+1)
					case *ssa.Convert:
						return recOf(x.X, depth+1)
					case *ssa.ChangeType:
						return recOf(x.X, depth+1)
					}
					return ""
				}
				ok, why := true, "every duplicate test in Validate uses a key builder of the accessor that stores the record"
				checked := 0
				keyCalls(validate, func(k *ssa.Function, cc *ssa.CallCommon) {
					T := ""
					for _, a := range cc.Args {
						if r := recOf(a, 0); r != "" {
							T = r
						}
					}
					if T == "" || storeKeys[T] == nil {
						return
					}
					checked++
					if !storeKeys[T][k.Name()] {
						var ks []string
						for n := range storeKeys[T] {
							ks = append(ks, n)
						}
						sort.Strings(ks)
						ok, why = false, fmt.Sprintf("Validate of x/%s tells %s records apart by %s, the store keys them by %s: records the store holds side by side are exported and then rejected as duplicates", mod, T, k.Name(), strings.Join(ks, "/"))
					}
				})
				if ok {
					why = fmt.Sprintf("%s (%d duplicate tests checked)", why, checked)
				}
				res.Obls = append(res.Obls, structural("x/"+mod+"/types.(GenesisState).Validate", "tells_records_apart_as_the_store_does", []string{"C19"}, ok, why))
			}
		}
		var setters []*ssa.Function
		for _, fn := range fns {
			if writes[fn] && fn.Parent() == nil && len(prefixes[fn]) > 0 {
				setters = append(setters, fn)
			}
		}
		sort.Slice(setters, func(i, j int) bool { return setters[i].String() < setters[j].String() })
		done := map[string]bool{}
		for _, st := range setters {
			live := false
			for _, c := range callers[st] {
				if c != initFn && !fromInitOnly(c, initFn, callers) {
					live = true
				}
			}
			name := "x/" + mod + "/keeper." + relName(st)
			for _, t := range table(st, encodes[st]) {
				if !live {
					res.Notes = append(res.Notes, fmt.Sprintf("%s writes table %s but has no caller outside genesis import: not live state", name, t))
					continue
				}
				if done[t] {
					continue
				}
				done[t] = true
				tn := "x/" + mod + ": table " + t
				res.Obls = append(res.Obls, structural(tn, "imported_by_InitGenesis", []string{"C19"}, imported[t],
					fmt.Sprintf("table %s is written at run time (%s) but no accessor reachable from InitGenesis writes it: it is not restored on import", t, name)))
				res.Obls = append(res.Obls, structural(tn, "exported_by_ExportGenesis", []string{"C19"}, exported[t],
					fmt.Sprintf("table %s (written by %s) is not read in full and decoded by any function reachable from ExportGenesis: it is not exported", t, name)))
			}
		}
	}
	return res
}

// fromInitOnly: every path to c comes from InitGenesis (so c is itself part of genesis import)
func fromInitOnly(c, initFn *ssa.Function, callers map[*ssa.Function][]*ssa.Function) bool {
	seen := map[*ssa.Function]bool{}
	var up func(fn *ssa.Function) bool
	up = func(fn *ssa.Function) bool {
		if fn == initFn {
			return true
		}
		if seen[fn] {
			return true
		}
		seen[fn] = true
		cs := callers[fn]
		if len(cs) == 0 {
			return false
		}
		for _, x := range cs {
			if !up(x) {
				return false
			}
		}
		return true
	}
	return up(c)
}

// structuralC06: the code of the custom modules that runs inside block processing uses no source of
// nondeterminism: no wall clock, no process-global or unseeded random source, no concurrency, and every iteration
// over a Go map sits in a function under a C06 contract that pins its result independently of the enumeration order.
func (w *Workspace) structuralC06() *FuncResult {
	res := &FuncResult{Key: "custom modules: sources of nondeterminism"}
	mods := append(append([]string{}, customModules...), "jklmint")
	forbidden := func(full string) string {
		switch {
		case full == "time.Now" || full == "time.Since" || full == "time.Until" || full == "time.After" || full == "time.Sleep" || full == "time.Tick":
			return "wall clock"
		case strings.HasPrefix(full, "math/rand.") && full != "math/rand.New" && full != "math/rand.NewSource":
			return "process-global math/rand source"
		case strings.HasPrefix(full, "crypto/rand."):
			return "crypto/rand"
		case strings.HasPrefix(full, "github.com/tendermint/tendermint/libs/rand.") && full != "github.com/tendermint/tendermint/libs/rand.NewRand" && full != "github.com/tendermint/tendermint/libs/rand.Seed":
			return "process-global tendermint rand source"
		case full == "os.Getenv" || full == "os.LookupEnv" || full == "os.Hostname" || full == "os.Getpid" || strings.HasPrefix(full, "runtime.NumGoroutine"):
			return "process environment"
		}
		return ""
	}
	checked := 0
	for _, mod := range mods {
		for _, sub := range []string{"/keeper", "/types", ""} {
			sp := w.ssaPkgs[modPath+"/x/"+mod+sub]
			if sp == nil {
				if sub != "/types" || mod != "jklmint" {
					res.Obls = append(res.Obls, structural("x/"+mod+sub, "package_loaded", []string{"C06"}, false, "package is not loaded"))
				}
				continue
			}
			var fns []*ssa.Function
			seen := map[*ssa.Function]bool{}
			var add func(fn *ssa.Function)
			add = func(fn *ssa.Function) {
				if fn == nil || seen[fn] || len(fn.Blocks) == 0 {
					return
				}
				seen[fn] = true
				fns = append(fns, fn)
				for _, a := range fn.AnonFuncs {
					add(a)
				}
			}
			for _, m := range sp.Members {
				switch x := m.(type) {
				case *ssa.Function:
					add(x)
				case *ssa.Type:
					for _, t := range []types.Type{x.Type(), types.NewPointer(x.Type())} {
						ms := w.prog.MethodSets.MethodSet(t)
						for i := 0; i < ms.Len(); i++ {
							if fn := w.prog.MethodValue(ms.At(i)); fn != nil && fn.Pkg == sp && fn.Synthetic == "" {
								add(fn)
							}
						}
					}
				}
			}
			sort.Slice(fns, func(i, j int) bool { return fns[i].String() < fns[j].String() })
			for _, fn := range fns {
				top := fn
				for top.Parent() != nil {
					top = top.Parent()
				}
				file := w.prog.Fset.Position(top.Pos()).Filename
				base := file[strings.LastIndex(file, "/")+1:]
				// not part of block processing: tests, queries, CLI, simulation, generated code, genesis/param plumbing
				if strings.HasSuffix(base, "_test.go") || strings.HasPrefix(base, "grpc_query") || strings.HasSuffix(base, ".pb.go") || strings.HasSuffix(base, ".pb.gw.go") ||
					strings.Contains(file, "/simulation/") || strings.Contains(file, "/client/") || base == "module_simulation.go" || base == "querier.go" {
					continue
				}
				if top.Name() == "init" || strings.HasPrefix(top.Name(), "init#") {
					continue // package initialisers run at process start, not during block processing
				}
				checked++
				name := "x/" + mod + sub + "." + relName(top)
				var bad []string
				mapRange := false
				for _, b := range fn.Blocks {
					for _, ins := range b.Instrs {
						switch x := ins.(type) {
						case *ssa.Go:
							bad = append(bad, "go statement")
						case *ssa.Select:
							bad = append(bad, "select")
						case *ssa.Send, *ssa.MakeChan:
							bad = append(bad, "channel operation")
						case *ssa.Range:
							if _, isMap := x.X.Type().Underlying().(*types.Map); isMap {
								mapRange = true
							}
						case *ssa.Store:
							if gv := rootGlobal(x.Addr); gv != nil && gv.Pkg != nil && isRepoPkg(gv.Pkg.Pkg) {
								bad = append(bad, "write to the package-level variable "+gv.Name()+" (memory of the node process)")
							}
						case *ssa.MapUpdate:
							if gv := rootGlobal(x.Map); gv != nil && gv.Pkg != nil && isRepoPkg(gv.Pkg.Pkg) {
								bad = append(bad, "write to the package-level map "+gv.Name()+" (memory of the node process)")
							}
						case ssa.CallInstruction:
							if callee := x.Common().StaticCallee(); callee != nil {
								if strings.HasSuffix(callee.String(), ".init") {
									continue // package initialisers of imports
								}
								if why := forbidden(callee.String()); why != "" {
									if why == "wall clock" && onlyFeedsTelemetry(x) {
										res.Notes = append(res.Notes, name+" reads the wall clock only to hand it to the telemetry package (no effect on state or results)")
										continue
									}
									bad = append(bad, why+" ("+callee.String()+")")
								}
							}
						}
					}
				}
				if len(bad) > 0 {
					res.Obls = append(res.Obls, structural(name, "no_nondeterministic_primitive", []string{"C06"}, false,
						fmt.Sprintf("%s uses %s: two nodes executing the same block may compute different results", name, strings.Join(bad, ", "))))
				}
				if mapRange {
					ct := w.contracts[modPath+"/x/"+mod+sub+"::"+relName(top)]
					ok := ct != nil && !ct.Trusted && contains(ct.Props, "C06")
					res.Obls = append(res.Obls, structural(name, "map_iteration_under_an_order_independence_contract", []string{"C06"}, ok,
						fmt.Sprintf("%s ranges over a Go map; it must be under a C06 contract that determines its result independently of the iteration order", name)))
				}
			}
		}
	}
	// process-local memory: a keeper is handed to every handler by value; anything mutable it points to (a cache, a
	// counter) lives in the node process, survives transactions and is not part of the replicated state
	for _, mod := range mods {
		sp := w.ssaPkgs[modPath+"/x/"+mod+"/keeper"]
		if sp == nil {
			continue
		}
		kt, ok := sp.Members["Keeper"].(*ssa.Type)
		if !ok {
			continue
		}
		st, ok := kt.Type().Underlying().(*types.Struct)
		if !ok {
			continue
		}
		var bad []string
		for i := 0; i < st.NumFields(); i++ {
			fld := st.Field(i)
			if why := processLocal(fld.Type(), 0); why != "" {
				bad = append(bad, fld.Name()+" ("+why+")")
			}
		}
		res.Obls = append(res.Obls, structural("x/"+mod+"/keeper.Keeper", "keeper_holds_no_process_local_memory", []string{"C06"}, len(bad) == 0,
			fmt.Sprintf("the keeper of x/%s carries mutable memory of the node process: %s; what handlers read from it can differ between nodes", mod, strings.Join(bad, ", "))))
	}
	res.Obls = append(res.Obls, structural("custom modules", "functions_scanned", []string{"C06"}, checked > 100, fmt.Sprintf("%d functions scanned", checked)))
	return res
}

// processLocal: why a value of this type, held by a keeper, is mutable memory of the node process ("" if it is not).
// Interfaces (store keys, codecs, other keepers) and types of other modules are the SDK's handles; strings and numbers
// are immutable once the keeper is built.
func processLocal(t types.Type, depth int) string {
	if depth > 3 {
		return ""
	}
	if n, ok := t.(*types.Named); ok {
		if n.Obj().Pkg() != nil && !isRepoPkg(n.Obj().Pkg()) {
			return ""
		}
	}
	switch u := t.Underlying().(type) {
	case *types.Pointer:
		return "pointer to " + types.TypeString(u.Elem(), nil)
	case *types.Map:
		return "map"
	case *types.Slice:
		return "slice"
	case *types.Chan:
		return "channel"
	case *types.Struct:
		for i := 0; i < u.NumFields(); i++ {
			if why := processLocal(u.Field(i).Type(), depth+1); why != "" {
				return "field " + u.Field(i).Name() + ": " + why
			}
		}
	}
	return ""
}

// onlyFeedsTelemetry: the value of the call is used only as an argument of calls into the SDK telemetry package.
func onlyFeedsTelemetry(ci ssa.CallInstruction) bool {
	v := ci.Value()
	if v == nil || v.Referrers() == nil {
		return false
	}
	for _, r := range *v.Referrers() {
		switch u := r.(type) {
		case *ssa.DebugRef:
		case ssa.CallInstruction:
			callee := u.Common().StaticCallee()
			if callee == nil || callee.Pkg == nil || callee.Pkg.Pkg.Path() != "github.com/cosmos/cosmos-sdk/telemetry" {
				return false
			}
		default:
			return false
		}
	}
	return true
}

// rootGlobal: the package-level variable an address or a loaded reference is derived from (nil if none)
func rootGlobal(v ssa.Value) *ssa.Global {
	for i := 0; i < 8; i++ {
		switch x := v.(type) {
		case *ssa.Global:
			return x
		case *ssa.FieldAddr:
			v = x.X
		case *ssa.IndexAddr:
			v = x.X
		case *ssa.UnOp:
			v = x.X
		default:
			return nil
		}
	}
	return nil
}

// ---------------------------------------------------------------------------
// C11, module-level frame: the tables that hold per-account resources are written only on behalf of the message
// types that manage them. For each such table (store prefix) the functions that open the prefix and write are found
// in the SSA of the keeper package; a message handler from which such a writer is reachable must be one of the
// handlers whose C11 contract speaks about that resource. A new path from another message to the table fails.

type c11Table struct {
	Mod, Prefix, What string
	Allowed           map[string]string // handler -> why it may write the table
}

var c11Tables = []c11Table{
	{"rns", "PrimaryName/value/", "primary names", map[string]string{
		"MakePrimary": "sets the signer's own primary name", "Register": "a first registration becomes the registrant's primary name",
		"RegisterName": "a first registration becomes the registrant's primary name"}},
	{"storage", "Providers/value/", "provider records", map[string]string{
		"InitProvider": "creates the signer's record", "ShutdownProvider": "removes the signer's record", "AddProviderClaimer": "edits the signer's record",
		"RemoveProviderClaimer": "edits the signer's record", "SetProviderIP": "edits the signer's record", "SetProviderKeybase": "edits the signer's record",
		"SetProviderTotalSpace": "edits the signer's record", "Report": "a passed report burns the reported prover's contract counter (C14)"}},
	{"oracle", "Feed/value/", "oracle feeds", map[string]string{"CreateFeed": "creates the signer's feed", "UpdateFeed": "updates the signer's feed"}},
	{"notifications", "Notification/", "inboxes and block lists", map[string]string{
		"CreateNotification": "adds to the recipient's inbox", "DeleteNotification": "deletes from the signer's inbox", "BlockSenders": "edits the signer's block list"}},
}

func (w *Workspace) structuralC11Frames() *FuncResult {
	res := &FuncResult{Key: "custom modules: who may write the per-account tables"}
	// every message handler is under a (verified) contract: a handler nobody wrote a contract for is a message about
	// which none of the properties says anything
	for _, mod := range customModules {
		kp := w.ssaPkgs[modPath+"/x/"+mod+"/keeper"]
		if kp == nil {
			continue
		}
		mt, ok := kp.Members["msgServer"].(*ssa.Type)
		if !ok {
			continue
		}
		var names []string
		for _, t := range []types.Type{mt.Type(), types.NewPointer(mt.Type())} {
			ms := w.prog.MethodSets.MethodSet(t)
			for i := 0; i < ms.Len(); i++ {
				if fn := w.prog.MethodValue(ms.At(i)); fn != nil && fn.Pkg == kp && fn.Synthetic == "" && ast.IsExported(fn.Name()) {
					names = append(names, fn.Name())
				}
			}
		}
		sort.Strings(names)
		seen := map[string]bool{}
		for _, n := range names {
			if seen[n] {
				continue
			}
			seen[n] = true
			ct := w.contracts[modPath+"/x/"+mod+"/keeper::(msgServer)."+n]
			ok := ct != nil && !ct.Trusted
			res.Obls = append(res.Obls, structural("x/"+mod+"/keeper.(msgServer)."+n, "message_handler_is_under_contract", []string{"C11"}, ok,
				fmt.Sprintf("the handler of %s in x/%s has no verified contract: nothing is proved about what this message may change", n, mod)))
		}
	}
	res.Obls = append(res.Obls, w.handlerInvocations()...)
	for _, tb := range c11Tables {
		kp := w.ssaPkgs[modPath+"/x/"+tb.Mod+"/keeper"]
		if kp == nil {
			res.Obls = append(res.Obls, structural("x/"+tb.Mod+"/keeper", "package_loaded", []string{"C11"}, false, "package is not loaded"))
			continue
		}
		var fns []*ssa.Function
		seen := map[*ssa.Function]bool{}
		var add func(fn *ssa.Function)
		add = func(fn *ssa.Function) {
			if fn == nil || seen[fn] || len(fn.Blocks) == 0 || strings.HasSuffix(w.prog.Fset.Position(fn.Pos()).Filename, "_test.go") {
				return
			}
			seen[fn] = true
			fns = append(fns, fn)
			for _, a := range fn.AnonFuncs {
				add(a)
			}
		}
		for _, m := range kp.Members {
			switch x := m.(type) {
			case *ssa.Function:
				add(x)
			case *ssa.Type:
				for _, t := range []types.Type{x.Type(), types.NewPointer(x.Type())} {
					ms := w.prog.MethodSets.MethodSet(t)
					for i := 0; i < ms.Len(); i++ {
						if fn := w.prog.MethodValue(ms.At(i)); fn != nil && fn.Pkg == kp && fn.Synthetic == "" {
							add(fn)
						}
					}
				}
			}
		}
		opens := map[*ssa.Function]bool{}
		writes := map[*ssa.Function]bool{}
		callees := map[*ssa.Function][]*ssa.Function{}
		for _, fn := range fns {
			for _, b := range fn.Blocks {
				for _, ins := range b.Instrs {
					ci, ok := ins.(ssa.CallInstruction)
					if !ok {
						continue
					}
					cc := ci.Common()
					if cc.IsInvoke() {
						if cc.Method.Name() == "Set" || cc.Method.Name() == "Delete" {
							writes[fn] = true
						}
						continue
					}
					callee := cc.StaticCallee()
					if callee == nil {
						continue
					}
					if callee.Name() == "KeyPrefix" && len(cc.Args) == 1 {
						if c, ok := cc.Args[0].(*ssa.Const); ok && constantString(c) == tb.Prefix {
							opens[fn] = true
						}
					}
					if s := callee.String(); s == "(github.com/cosmos/cosmos-sdk/store/prefix.Store).Set" || s == "(github.com/cosmos/cosmos-sdk/store/prefix.Store).Delete" {
						writes[fn] = true
					}
					if seen[callee] {
						callees[fn] = append(callees[fn], callee)
					}
					for _, a := range cc.Args {
						if mc, ok := a.(*ssa.MakeClosure); ok {
							if cf, ok := mc.Fn.(*ssa.Function); ok && seen[cf] {
								callees[fn] = append(callees[fn], cf)
							}
						}
					}
				}
			}
			for _, a := range fn.AnonFuncs {
				callees[fn] = append(callees[fn], a)
			}
		}
		// a helper that only opens the table's store and hands it back (`func (k Keeper) feedStore(ctx) prefix.Store`)
		// makes its callers openers of the table
		for changed := true; changed; {
			changed = false
			for _, fn := range fns {
				if opens[fn] {
					continue
				}
				for _, c := range callees[fn] {
					if opens[c] && !writes[c] && returnsStore(c) {
						opens[fn] = true
						changed = true
					}
				}
			}
		}
		nWriters := 0
		for _, fn := range fns {
			if opens[fn] && writes[fn] {
				nWriters++
			}
		}
		res.Obls = append(res.Obls, structural("x/"+tb.Mod+"/keeper: table "+tb.Prefix, "writers_found", []string{"C11"}, nWriters > 0,
			fmt.Sprintf("no function of x/%s/keeper opens the prefix %q and writes: the table of %s was moved or renamed, the frame rule has nothing to check", tb.Mod, tb.Prefix, tb.What)))
		var handlers []*ssa.Function
		for _, fn := range fns {
			if fn.Signature.Recv() != nil && fn.Parent() == nil {
				if n, ok := fn.Signature.Recv().Type().(*types.Named); ok && n.Obj().Name() == "msgServer" {
					handlers = append(handlers, fn)
				}
			}
		}
		sort.Slice(handlers, func(i, j int) bool { return handlers[i].Name() < handlers[j].Name() })
		for _, h := range handlers {
			reach := map[*ssa.Function]bool{}
			var visit func(fn *ssa.Function)
			visit = func(fn *ssa.Function) {
				if reach[fn] {
					return
				}
				reach[fn] = true
				for _, c := range callees[fn] {
					visit(c)
				}
			}
			visit(h)
			via := ""
			for fn := range reach {
				if opens[fn] && writes[fn] {
					if via == "" || relName(fn) < via {
						via = relName(fn)
					}
				}
			}
			if via == "" {
				continue
			}
			_, ok := tb.Allowed[h.Name()]
			res.Obls = append(res.Obls, structural("x/"+tb.Mod+"/keeper.(msgServer)."+h.Name(), "writes_"+strings.ReplaceAll(tb.What, " ", "_")+"_only_as_one_of_their_own_messages", []string{"C11"}, ok,
				fmt.Sprintf("the handler of %s reaches %s, which writes the table of %s (%s); only %s may, each under a C11 contract that confines the write to the signer's own resource", h.Name(), via, tb.What, tb.Prefix, strings.Join(sortedKeys(tb.Allowed), ", "))))
		}
	}
	return res
}

// handlerInvocations: a message handler runs a message on behalf of its Creator without looking at who asked for it --
// the signature check sits in front of it (A-ANTE). So a handler may be invoked only by the module's own dispatchers,
// which pass on the messages of a signed transaction unchanged (NewHandler in x/<mod>/handler.go, the generated
// _Msg_*_Handler functions of types/tx.pb.go), or by a function under a verified C11 contract, which has to establish
// by other means that the message is the caller's own (wasmbinding.PerformPostFile does). One obligation per
// invoking function outside the dispatchers, so that the set of invokers is part of the evidence.
func (w *Workspace) handlerInvocations() []*Obligation {
	isHandlerCall := func(c *ssa.CallCommon) (string, bool) {
		if c.IsInvoke() {
			if n, ok := c.Value.Type().(*types.Named); ok && n.Obj().Name() == "MsgServer" && n.Obj().Pkg() != nil {
				for _, mod := range append(append([]string{}, customModules...), "jklmint") {
					if n.Obj().Pkg().Path() == modPath+"/x/"+mod+"/types" {
						return "x/" + mod + " " + c.Method.Name(), true
					}
				}
			}
			return "", false
		}
		if fn := c.StaticCallee(); fn != nil && fn.Signature.Recv() != nil && fn.Pkg != nil && isRepoPkg(fn.Pkg.Pkg) {
			t := fn.Signature.Recv().Type()
			if pt, ok := t.(*types.Pointer); ok {
				t = pt.Elem()
			}
			if n, ok := t.(*types.Named); ok && n.Obj().Name() == "msgServer" && ast.IsExported(fn.Name()) {
				return strings.TrimPrefix(fn.Pkg.Pkg.Path(), modPath+"/") + " " + fn.Name(), true
			}
		}
		return "", false
	}
	type inv struct {
		fn    *ssa.Function
		calls []string
	}
	byFn := map[string]*inv{}
	for key, fn := range w.funcs {
		if len(fn.Blocks) == 0 {
			continue
		}
		file := w.prog.Fset.Position(fn.Pos()).Filename
		if strings.HasSuffix(file, "_test.go") {
			continue
		}
		base := filepath.Base(file)
		if base == "handler.go" || base == "tx.pb.go" {
			continue
		}
		for _, b := range fn.Blocks {
			for _, in := range b.Instrs {
				ci, ok := in.(ssa.CallInstruction)
				if !ok {
					continue
				}
				if what, ok := isHandlerCall(ci.Common()); ok {
					if byFn[key] == nil {
						byFn[key] = &inv{fn: fn}
					}
					byFn[key].calls = append(byFn[key].calls, what)
				}
			}
		}
	}
	var keys []string
	for k := range byFn {
		keys = append(keys, k)
	}
	sort.Strings(keys)
	var out []*Obligation
	for _, k := range keys {
		top := byFn[k].fn
		for top.Parent() != nil {
			top = top.Parent()
		}
		ck := k
		if top != byFn[k].fn && top.Pkg != nil {
			ck = top.Pkg.Pkg.Path() + "::" + relName(top)
		}
		ct := w.contracts[ck]
		ok := ct != nil && !ct.Trusted && contractServes(ct, "C11")
		out = append(out, structural(strings.TrimPrefix(strings.Replace(k, "::", ".", 1), modPath+"/"), "invokes_a_message_handler_under_a_C11_contract", []string{"C11"}, ok,
			fmt.Sprintf("%s runs the message handler(s) %s outside the signed-transaction dispatchers and has no verified C11 contract: nothing shows that the message it runs is its caller's own", k, strings.Join(byFn[k].calls, ", "))))
	}
	return out
}

func sortedKeys(m map[string]string) []string {
	var ks []string
	for k := range m {
		ks = append(ks, k)
	}
	sort.Strings(ks)
	return ks
}

// ---------------------------------------------------------------------------
// Trusted contracts of repository functions that have no verified counterpart (iterators, parameter accessors, a few
// helpers) are assumptions about one particular body. The body each was written for is pinned by a fingerprint of its
// SSA (instructions without source positions and debug references); when the body changes the assumption is void and
// the check says so instead of going on trusting the old text. Pins: /verif/props/pins.json (bin/govc pins rewrites it).

func bodyFingerprint(fn *ssa.Function) string { return bodyFingerprintDepth(fn, 0) }

func depthOK(d int) bool { return d < 3 }

func bodyFingerprintDepth(fn *ssa.Function, depth int) string {
	var b strings.Builder
	var dump func(f *ssa.Function)
	dump = func(f *ssa.Function) {
		fmt.Fprintf(&b, "func %d params %d results\n", len(f.Params), f.Signature.Results().Len())
		for _, blk := range f.Blocks {
			fmt.Fprintf(&b, "block %d\n", blk.Index)
			for _, ins := range blk.Instrs {
				if _, isDbg := ins.(*ssa.DebugRef); isDbg {
					continue
				}
				s := ins.String()
				if ci, ok := ins.(ssa.CallInstruction); ok {
					// an unexported helper of the repository is identified by its own body, not by its name
					if callee := ci.Common().StaticCallee(); callee != nil && callee != fn && callee.Pkg != nil && isRepoPkg(callee.Pkg.Pkg) && !ast.IsExported(callee.Name()) && len(callee.Blocks) > 0 && depthOK(depth) {
						s = strings.Replace(s, callee.String(), "helper:"+bodyFingerprintDepth(callee, depth+1), 1)
						s = strings.Replace(s, callee.Name(), "helper:"+bodyFingerprintDepth(callee, depth+1), 1)
					}
				}
				if v, ok := ins.(ssa.Value); ok {
					s = v.Name() + " = " + s
				}
				b.WriteString(s)
				b.WriteString("\n")
			}
		}
		for _, a := range f.AnonFuncs {
			dump(a)
		}
	}
	dump(fn)
	h := sha256.Sum256([]byte(b.String()))
	return hex.EncodeToString(h[:8])
}

// pinnedTrusted: the trusted, unverified repository contracts among `relied` with the fingerprints of their bodies
func (w *Workspace) pinnedTrusted(keys []string) map[string]string {
	out := map[string]string{}
	for _, k := range keys {
		ct := w.contracts[k]
		if ct == nil || !ct.Trusted || ct.View != "" || ct.Refined != "" || ct.PkgPath == "" {
			continue
		}
		if w.contracts[k+"@store"] != nil || w.contracts[k+"@text"] != nil {
			continue
		}
		fn := w.funcs[k]
		if fn == nil || len(fn.Blocks) == 0 {
			continue // interface method or external declaration: nothing to pin
		}
		out[strings.TrimPrefix(k, modPath+"/")] = bodyFingerprint(fn)
	}
	return out
}

func (w *Workspace) structuralPins(prop string, relied []string) *FuncResult {
	cur := w.pinnedTrusted(relied)
	if len(cur) == 0 {
		return nil
	}
	res := &FuncResult{Key: "trusted contracts of repository functions: the bodies they were written for"}
	pins := map[string]string{}
	if b, err := os.ReadFile(filepath.Join(w.verif, "props", "pins.json")); err == nil {
		json.Unmarshal(b, &pins)
	}
	var ks []string
	for k := range cur {
		ks = append(ks, k)
	}
	sort.Strings(ks)
	for _, k := range ks {
		want, pinned := pins[k]
		ok := pinned && want == cur[k]
		why := fmt.Sprintf("the trusted contract of %s was written for another body (pinned %s, now %s): what it assumes about the function has to be re-established before anything is proved from it", k, want, cur[k])
		if !pinned {
			why = fmt.Sprintf("the trusted contract of %s has no pinned body (run `bin/govc pins` after reviewing the contract against the code)", k)
		}
		res.Obls = append(res.Obls, structural(k, "trusted_contract_matches_the_body_it_was_written_for", []string{prop}, ok, why))
	}
	return res
}

// returnsStore: the function's (single) result is a store handle
func returnsStore(fn *ssa.Function) bool {
	rs := fn.Signature.Results()
	if rs.Len() != 1 {
		return false
	}
	t := rs.At(0).Type().String()
	return strings.HasSuffix(t, "store/prefix.Store") || strings.HasSuffix(t, "types.KVStore") || strings.HasSuffix(t, "store/types.KVStore")
}

// ---------------------------------------------------------------------------
// C12: "released by a reward block" presupposes that a reward block steps the gauges at all. The per-gauge contract of the
// release callback says what one step does; that every reward walk reaches the step is a control-flow fact: the call
// chain ManageRewards -> rewardAllProviders -> pullTokensFromGauges must lie on every path to a return.

func (w *Workspace) structuralC12() *FuncResult {
	res := &FuncResult{Key: "x/storage/keeper: every reward walk steps the gauges"}
	kp := w.ssaPkgs[modPath+"/x/storage/keeper"]
	if kp == nil {
		res.Obls = append(res.Obls, structural("x/storage/keeper", "package_loaded", []string{"C12"}, false, "package is not loaded"))
		return res
	}
	find := func(name string) *ssa.Function {
		for k, fn := range w.funcs {
			if strings.HasPrefix(k, modPath+"/x/storage/keeper::") && fn.Parent() == nil && fn.Name() == name {
				return fn
			}
		}
		return nil
	}
	chain := [][2]string{{"ManageRewards", "rewardAllProviders"}, {"rewardAllProviders", "pullTokensFromGauges"}}
	for _, c := range chain {
		fn := find(c[0])
		name := "x/storage/keeper.(Keeper)." + c[0]
		if fn == nil {
			res.Obls = append(res.Obls, structural(name, "steps_the_gauges_on_every_path", []string{"C12"}, false, "function "+c[0]+" not found: the reward walk was restructured, the rule has nothing to check"))
			continue
		}
		// blocks from which the callee is (transitively, within the package) called
		calls := func(b *ssa.BasicBlock) bool {
			for _, ins := range b.Instrs {
				if ci, ok := ins.(ssa.CallInstruction); ok {
					if callee := ci.Common().StaticCallee(); callee != nil && w.reachesByName(callee, c[1], 0) {
						return true
					}
				}
			}
			return false
		}
		var callBlocks []*ssa.BasicBlock
		for _, b := range fn.Blocks {
			if calls(b) {
				callBlocks = append(callBlocks, b)
			}
		}
		ok, why := len(callBlocks) > 0, fmt.Sprintf("%s never calls %s", c[0], c[1])
		if ok {
			why = fmt.Sprintf("every return of %s is preceded by the call of %s", c[0], c[1])
			for _, b := range fn.Blocks {
				if len(b.Instrs) == 0 {
					continue
				}
				if _, isRet := b.Instrs[len(b.Instrs)-1].(*ssa.Return); !isRet {
					continue
				}
				dominated := false
				for _, cb := range callBlocks {
					if cb.Dominates(b) {
						dominated = true
					}
				}
				if !dominated {
					ok = false
					why = fmt.Sprintf("%s can return (block %d, %s) without having called %s: on that path the payment gauges are not stepped in this reward block, cumulative release falls behind the elapsed fraction", c[0], b.Index, w.prog.Fset.Position(b.Instrs[len(b.Instrs)-1].Pos()), c[1])
				}
			}
		}
		res.Obls = append(res.Obls, structural(name, "steps_the_gauges_on_every_path", []string{"C12"}, ok, why))
	}
	return res
}

// reachesByName: fn is, or (within the repository, a few calls deep) calls, a function of that name
func (w *Workspace) reachesByName(fn *ssa.Function, name string, depth int) bool {
	if fn.Name() == name {
		return true
	}
	if depth > 3 || fn.Pkg == nil || !isRepoPkg(fn.Pkg.Pkg) {
		return false
	}
	for _, b := range fn.Blocks {
		for _, ins := range b.Instrs {
			if ci, ok := ins.(ssa.CallInstruction); ok {
				if callee := ci.Common().StaticCallee(); callee != nil && callee != fn && w.reachesByName(callee, name, depth+1) {
					return true
				}
			}
		}
	}
	return false
}
