package main

import (
	"fmt"
	"go/types"
	"sort"
	"strings"

	"golang.org/x/tools/go/ssa"
)

// Structural obligations: facts decided by inspecting the typed SSA rather
// than by an SMT query (enumeration of message types, registration calls,
// absence of forbidden primitives). They are reported as obligations
// discharged by "ssa-scan".

func structural(name, label string, props []string, ok bool, detail string) *Obligation {
	o := &Obligation{Name: name + "#structural:" + label, Kind: "structural", Label: label, Props: props, Func: name, GoalSrc: detail, Solver: "ssa-scan"}
	if ok {
		o.Verdict = "unsat"
	} else {
		o.Verdict = "sat"
		o.Output = detail
	}
	return o
}

var customModules = []string{"storage", "rns", "filetree", "oracle", "notifications"}

// structuralC11: every request type of every MsgServer interface of the custom
// modules has a GetSigners contract, and RegisterInterfaces registers it.
func (w *Workspace) structuralC11() *FuncResult {
	res := &FuncResult{Key: "custom modules: message enumeration"}
	total := 0
	for _, mod := range customModules {
		path := modPath + "/x/" + mod + "/types"
		sp := w.ssaPkgs[path]
		if sp == nil {
			res.Obls = append(res.Obls, structural("x/"+mod+"/types", "package_loaded", []string{"C11"}, false, "package "+path+" is not loaded"))
			continue
		}
		obj := sp.Pkg.Scope().Lookup("MsgServer")
		if obj == nil {
			res.Obls = append(res.Obls, structural("x/"+mod+"/types", "msgserver_interface", []string{"C11"}, false, "no MsgServer interface"))
			continue
		}
		iface, ok := obj.Type().Underlying().(*types.Interface)
		if !ok {
			continue
		}
		registered := map[string]bool{}
		viaServiceDesc := false // msgservice.RegisterMsgServiceDesc(registry, &_Msg_serviceDesc) registers every request type of the service
		if fn := sp.Func("RegisterInterfaces"); fn != nil {
			for _, b := range fn.Blocks {
				for _, ins := range b.Instrs {
					if a, ok := ins.(*ssa.Alloc); ok {
						if n, ok := a.Type().(*types.Pointer).Elem().(*types.Named); ok {
							registered[n.Obj().Name()] = true
						}
					}
					if c, ok := ins.(*ssa.Call); ok {
						if callee := c.Common().StaticCallee(); callee != nil && callee.String() == "github.com/cosmos/cosmos-sdk/types/msgservice.RegisterMsgServiceDesc" && len(c.Common().Args) == 2 {
							if g, ok := c.Common().Args[1].(*ssa.Global); ok && g.Name() == "_Msg_serviceDesc" && g.Pkg == sp {
								viaServiceDesc = true
							}
						}
					}
				}
			}
		}
		// the module must install its message server
		served := false
		if mp := w.ssaPkgs[modPath+"/x/"+mod]; mp != nil {
			if am, ok := mp.Pkg.Scope().Lookup("AppModule").(*types.TypeName); ok {
				if m := w.prog.LookupMethod(am.Type(), mp.Pkg, "RegisterServices"); m != nil {
					for _, b := range m.Blocks {
						for _, ins := range b.Instrs {
							if c, ok := ins.(*ssa.Call); ok {
								if callee := c.Common().StaticCallee(); callee != nil && callee.Name() == "RegisterMsgServer" && callee.Pkg == sp {
									served = true
								}
							}
						}
					}
				}
			}
			res.Obls = append(res.Obls, structural("x/"+mod+".AppModule", "message_server_installed", []string{"C11"}, served,
				"AppModule.RegisterServices of x/"+mod+" must call types.RegisterMsgServer"))
		}
		var names []string
		for i := 0; i < iface.NumMethods(); i++ {
			sig := iface.Method(i).Type().(*types.Signature)
			if sig.Params().Len() != 2 {
				continue
			}
			pt, ok := sig.Params().At(1).Type().(*types.Pointer)
			if !ok {
				continue
			}
			n, ok := pt.Elem().(*types.Named)
			if !ok {
				continue
			}
			names = append(names, n.Obj().Name())
		}
		sort.Strings(names)
		for _, n := range names {
			total++
			key := path + "::(*" + n + ").GetSigners"
			ct := w.contracts[key]
			has := ct != nil && len(ct.Ensures) > 0 && contains(ct.Props, "C11") && w.funcs[key] != nil
			res.Obls = append(res.Obls, structural("x/"+mod+"/types."+n, "getsigners_under_contract", []string{"C11"}, has,
				fmt.Sprintf("message type %s of the %s MsgServer must have a GetSigners contract (signer == creator)", n, mod)))
			res.Obls = append(res.Obls, structural("x/"+mod+"/types."+n, "registered_as_sdk_msg", []string{"C11"}, registered[n] || viaServiceDesc,
				fmt.Sprintf("RegisterInterfaces of x/%s must register %s", mod, n)))
		}
	}
	res.Obls = append(res.Obls, structural("custom modules", "message_types_enumerated", []string{"C11"}, total > 0, fmt.Sprintf("%d message types enumerated from the MsgServer interfaces", total)))
	res.Notes = append(res.Notes, fmt.Sprintf("%d message types enumerated from the MsgServer interfaces of %s", total, strings.Join(customModules, ", ")))
	return res
}

// structuralC05: the Begin/EndBlock hooks of the custom modules either do
// nothing (no call, no panic-capable instruction) or only call the module's
// BeginBlocker, which is under a nopanic contract.
func (w *Workspace) structuralC05() *FuncResult {
	res := &FuncResult{Key: "custom modules: block hooks"}
	for _, mod := range append(append([]string{}, customModules...), "jklmint") {
		mp := w.ssaPkgs[modPath+"/x/"+mod]
		if mp == nil {
			res.Obls = append(res.Obls, structural("x/"+mod, "package_loaded", []string{"C05"}, false, "package x/"+mod+" is not loaded"))
			continue
		}
		am, ok := mp.Pkg.Scope().Lookup("AppModule").(*types.TypeName)
		if !ok {
			res.Obls = append(res.Obls, structural("x/"+mod, "appmodule_found", []string{"C05"}, false, "no AppModule type"))
			continue
		}
		for _, hook := range []string{"BeginBlock", "EndBlock"} {
			m := w.prog.LookupMethod(am.Type(), mp.Pkg, hook)
			if m == nil {
				res.Obls = append(res.Obls, structural("x/"+mod+".AppModule."+hook, "hook_found", []string{"C05"}, false, "method not found"))
				continue
			}
			ok, why := true, "no call and no instruction that can panic"
			for _, b := range m.Blocks {
				for _, ins := range b.Instrs {
					switch x := ins.(type) {
					case *ssa.DebugRef, *ssa.Return, *ssa.Alloc, *ssa.Jump, *ssa.Store, *ssa.FieldAddr, *ssa.Field:
					case *ssa.UnOp:
					case *ssa.MakeSlice, *ssa.Slice:
					case *ssa.Call:
						callee := x.Common().StaticCallee()
						key := ""
						if callee != nil && callee.Pkg != nil {
							key = callee.Pkg.Pkg.Path() + "::" + relName(callee)
						}
						ct := w.contracts[key]
						if callee != nil && callee.Name() == "BeginBlocker" && callee.Pkg == mp && ct != nil && ct.NoPanic && contains(ct.Props, "C05") {
							why = "only calls " + mod + ".BeginBlocker, which is under a nopanic contract"
						} else {
							ok, why = false, "calls "+x.Common().String()+" which is not a BeginBlocker under a nopanic contract"
						}
					default:
						ok, why = false, fmt.Sprintf("instruction %T (%s) may panic or have effects", ins, ins.String())
					}
				}
			}
			res.Obls = append(res.Obls, structural("x/"+mod+".AppModule."+hook, "hook_cannot_panic_outside_contracts", []string{"C05"}, ok, why))
		}
	}
	return res
}
