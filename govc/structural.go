package main

import (
	"fmt"
	"go/types"
	"sort"
	"strings"

	"golang.org/x/tools/go/ssa"
)

// Structural obligations: facts decided by inspecting the typed SSA rather
// than by an SMT query (enumeration of message types, registration calls,
// absence of forbidden primitives). They are reported as obligations
// discharged by "ssa-scan".

func structural(name, label string, props []string, ok bool, detail string) *Obligation {
	o := &Obligation{Name: name + "#structural:" + label, Kind: "structural", Label: label, Props: props, Func: name, GoalSrc: detail, Solver: "ssa-scan"}
	if ok {
		o.Verdict = "unsat"
	} else {
		o.Verdict = "sat"
		o.Output = detail
	}
	return o
}

var customModules = []string{"storage", "rns", "filetree", "oracle", "notifications"}

// structuralC11: every request type of every MsgServer interface of the custom
// modules has a GetSigners contract, and RegisterInterfaces registers it.
func (w *Workspace) structuralC11() *FuncResult {
	res := &FuncResult{Key: "custom modules: message enumeration"}
	total := 0
	for _, mod := range customModules {
		path := modPath + "/x/" + mod + "/types"
		sp := w.ssaPkgs[path]
		if sp == nil {
			res.Obls = append(res.Obls, structural("x/"+mod+"/types", "package_loaded", []string{"C11"}, false, "package "+path+" is not loaded"))
			continue
		}
		obj := sp.Pkg.Scope().Lookup("MsgServer")
		if obj == nil {
			res.Obls = append(res.Obls, structural("x/"+mod+"/types", "msgserver_interface", []string{"C11"}, false, "no MsgServer interface"))
			continue
		}
		iface, ok := obj.Type().Underlying().(*types.Interface)
		if !ok {
			continue
		}
		registered := map[string]bool{}
		viaServiceDesc := false // msgservice.RegisterMsgServiceDesc(registry, &_Msg_serviceDesc) registers every request type of the service
		if fn := sp.Func("RegisterInterfaces"); fn != nil {
			for _, b := range fn.Blocks {
				for _, ins := range b.Instrs {
					if a, ok := ins.(*ssa.Alloc); ok {
						if n, ok := a.Type().(*types.Pointer).Elem().(*types.Named); ok {
							registered[n.Obj().Name()] = true
						}
					}
					if c, ok := ins.(*ssa.Call); ok {
						if callee := c.Common().StaticCallee(); callee != nil && callee.String() == "github.com/cosmos/cosmos-sdk/types/msgservice.RegisterMsgServiceDesc" && len(c.Common().Args) == 2 {
							if g, ok := c.Common().Args[1].(*ssa.Global); ok && g.Name() == "_Msg_serviceDesc" && g.Pkg == sp {
								viaServiceDesc = true
							}
						}
					}
				}
			}
		}
		// the module must install its message server
		served := false
		if mp := w.ssaPkgs[modPath+"/x/"+mod]; mp != nil {
			if am, ok := mp.Pkg.Scope().Lookup("AppModule").(*types.TypeName); ok {
				if m := w.prog.LookupMethod(am.Type(), mp.Pkg, "RegisterServices"); m != nil {
					for _, b := range m.Blocks {
						for _, ins := range b.Instrs {
							if c, ok := ins.(*ssa.Call); ok {
								if callee := c.Common().StaticCallee(); callee != nil && callee.Name() == "RegisterMsgServer" && callee.Pkg == sp {
									served = true
								}
							}
						}
					}
				}
			}
			res.Obls = append(res.Obls, structural("x/"+mod+".AppModule", "message_server_installed", []string{"C11"}, served,
				"AppModule.RegisterServices of x/"+mod+" must call types.RegisterMsgServer"))
		}
		var names []string
		for i := 0; i < iface.NumMethods(); i++ {
			sig := iface.Method(i).Type().(*types.Signature)
			if sig.Params().Len() != 2 {
				continue
			}
			pt, ok := sig.Params().At(1).Type().(*types.Pointer)
			if !ok {
				continue
			}
			n, ok := pt.Elem().(*types.Named)
			if !ok {
				continue
			}
			names = append(names, n.Obj().Name())
		}
		sort.Strings(names)
		for _, n := range names {
			total++
			key := path + "::(*" + n + ").GetSigners"
			ct := w.contracts[key]
			has := ct != nil && len(ct.Ensures) > 0 && contains(ct.Props, "C11") && w.funcs[key] != nil
			res.Obls = append(res.Obls, structural("x/"+mod+"/types."+n, "getsigners_under_contract", []string{"C11"}, has,
				fmt.Sprintf("message type %s of the %s MsgServer must have a GetSigners contract (signer == creator)", n, mod)))
			res.Obls = append(res.Obls, structural("x/"+mod+"/types."+n, "registered_as_sdk_msg", []string{"C11"}, registered[n] || viaServiceDesc,
				fmt.Sprintf("RegisterInterfaces of x/%s must register %s", mod, n)))
		}
	}
	res.Obls = append(res.Obls, structural("custom modules", "message_types_enumerated", []string{"C11"}, total > 0, fmt.Sprintf("%d message types enumerated from the MsgServer interfaces", total)))
	res.Notes = append(res.Notes, fmt.Sprintf("%d message types enumerated from the MsgServer interfaces of %s", total, strings.Join(customModules, ", ")))
	return res
}

// structuralC05: the Begin/EndBlock hooks of the custom modules either do
// nothing (no call, no panic-capable instruction) or only call the module's
// BeginBlocker, which is under a nopanic contract.
func (w *Workspace) structuralC05() *FuncResult {
	res := &FuncResult{Key: "custom modules: block hooks"}
	for _, mod := range append(append([]string{}, customModules...), "jklmint") {
		mp := w.ssaPkgs[modPath+"/x/"+mod]
		if mp == nil {
			res.Obls = append(res.Obls, structural("x/"+mod, "package_loaded", []string{"C05"}, false, "package x/"+mod+" is not loaded"))
			continue
		}
		am, ok := mp.Pkg.Scope().Lookup("AppModule").(*types.TypeName)
		if !ok {
			res.Obls = append(res.Obls, structural("x/"+mod, "appmodule_found", []string{"C05"}, false, "no AppModule type"))
			continue
		}
		for _, hook := range []string{"BeginBlock", "EndBlock"} {
			m := w.prog.LookupMethod(am.Type(), mp.Pkg, hook)
			if m == nil {
				res.Obls = append(res.Obls, structural("x/"+mod+".AppModule."+hook, "hook_found", []string{"C05"}, false, "method not found"))
				continue
			}
			ok, why := true, "no call and no instruction that can panic"
			for _, b := range m.Blocks {
				for _, ins := range b.Instrs {
					switch x := ins.(type) {
					case *ssa.DebugRef, *ssa.Return, *ssa.Alloc, *ssa.Jump, *ssa.Store, *ssa.FieldAddr, *ssa.Field:
					case *ssa.UnOp:
					case *ssa.MakeSlice, *ssa.Slice:
					case *ssa.Call:
						callee := x.Common().StaticCallee()
						key := ""
						if callee != nil && callee.Pkg != nil {
							key = callee.Pkg.Pkg.Path() + "::" + relName(callee)
						}
						ct := w.contracts[key]
						if callee != nil && callee.Name() == "BeginBlocker" && callee.Pkg == mp && ct != nil && ct.NoPanic && contains(ct.Props, "C05") {
							why = "only calls " + mod + ".BeginBlocker, which is under a nopanic contract"
						} else {
							ok, why = false, "calls "+x.Common().String()+" which is not a BeginBlocker under a nopanic contract"
						}
					default:
						ok, why = false, fmt.Sprintf("instruction %T (%s) may panic or have effects", ins, ins.String())
					}
				}
			}
			res.Obls = append(res.Obls, structural("x/"+mod+".AppModule."+hook, "hook_cannot_panic_outside_contracts", []string{"C05"}, ok, why))
		}
	}
	return res
}

// writerRule: a module-level frame condition. Every call of one of the
// writer functions (matched by method or function name) made from the listed
// packages must sit in a function that is itself under a (non-trusted)
// contract serving the property, so that no unverified path can write the
// state the property is about. Functions in `allow` are accepted with the
// stated assumption (genesis import, one-time migrations).
type writerRule struct {
	Prop    string
	What    string
	Pkgs    []string          // package paths relative to the module
	Writers map[string]bool   // callee names (method or function name)
	Recv    map[string]bool   // accepted receiver type names (empty: any)
	Allow   map[string]string // enclosing function (pkg-relative key) -> assumption
	View    string            // when set, the contract of that view (key@view) is accepted as well
}

var writerRules = map[string][]writerRule{
	"C17": {
		{
			Prop: "C17", What: "the raw store of x/storage", View: "store",
			Pkgs:    []string{"x/storage/keeper", "x/storage"},
			Writers: map[string]bool{"Set": true, "Delete": true},
			Recv:    map[string]bool{"Store": true, "KVStore": true},
			Allow:   map[string]string{},
		},
		{
			Prop: "C17", What: "single file-index entries", View: "store",
			Pkgs:    []string{"x/storage/keeper", "x/storage"},
			Writers: map[string]bool{"setFilePrimary": true, "setFileSecondary": true, "removeFilePrimary": true, "removeFileSecondary": true},
			Recv:    map[string]bool{"Keeper": true, "msgServer": true},
			Allow:   map[string]string{},
		},
		{
			Prop: "C17", What: "stored files, prover lists and proof records",
			Pkgs:    []string{"x/storage/keeper", "x/storage/types", "x/storage"},
			Writers: map[string]bool{"SetFile": true, "RemoveFile": true, "SetProof": true, "RemoveProof": true, "RemoveProofWithBuiltKey": true, "AddProver": true, "RemoveProver": true, "RemoveProverWithKey": true, "Save": true},
			Recv:    map[string]bool{"Keeper": true, "msgServer": true, "ProofLoader": true, "UnifiedFile": true, "FileProof": true},
			Allow: map[string]string{
				"x/storage.InitGenesis":             "genesis import (C19); not a transaction path",
				"x/storage/types.(*FileProof).Save": "wrapper of SetProof without callers in the module",
				"x/storage/types.(*UnifiedFile).Save": "wrapper of SetFile; its only caller RemoveProverWithKey is under contract (it is inlined there)",
				"x/storage/types.(*UnifiedFile).RemoveProver": "wrapper of RemoveProverWithKey with the key built by MakeProofKey; inlined at its call sites (DoReport)",
			},
		},
	},
	"C14": {{
		Prop: "C14", What: "attestation and report forms",
		Pkgs:    []string{"x/storage/keeper", "x/storage"},
		Writers: map[string]bool{"SetAttestationForm": true, "SetReportForm": true, "RemoveAttestation": true, "RemoveReport": true, "RemoveAllAttestation": true, "RemoveAllReport": true},
		Recv:    map[string]bool{"Keeper": true, "msgServer": true},
		Allow: map[string]string{
			"x/storage.InitGenesis": "genesis import writes the exported forms back (C19); not a transaction path",
		},
	}},
	"C01": {{
		Prop: "C01", What: "proof records and prover lists",
		Pkgs:    []string{"x/storage/keeper", "x/storage/types", "x/storage"},
		Writers: map[string]bool{"SetProof": true, "AddProver": true, "Save": true, "SetProven": true, "ResetChunkWithProof": true, "ResetChunk": true},
		Recv:    map[string]bool{"Keeper": true, "ProofLoader": true, "UnifiedFile": true, "FileProof": true, "msgServer": true},
		Allow: map[string]string{
			"x/storage/types.(*FileProof).Save": "wrapper of SetProof without callers in the module (checked: its callers are scanned like any other writer)",
			"x/storage.InitGenesis":             "genesis import (C19); not a transaction path",
		},
	}},
}

func (w *Workspace) structuralWriters(prop string) *FuncResult {
	rules := writerRules[prop]
	if len(rules) == 0 {
		return nil
	}
	res := &FuncResult{Key: "module-level frame: writers of " + rules[0].What}
	for _, rule := range rules {
		for _, rel := range rule.Pkgs {
			sp := w.ssaPkgs[modPath+"/"+rel]
			if sp == nil {
				res.Obls = append(res.Obls, structural(rel, "package_loaded", []string{prop}, false, "package "+rel+" is not loaded"))
				continue
			}
			var fns []*ssa.Function
			seen := map[*ssa.Function]bool{}
			var add func(fn *ssa.Function)
			add = func(fn *ssa.Function) {
				if fn == nil || seen[fn] || len(fn.Blocks) == 0 {
					return
				}
				seen[fn] = true
				fns = append(fns, fn)
				for _, a := range fn.AnonFuncs {
					add(a)
				}
			}
			for _, m := range sp.Members {
				switch x := m.(type) {
				case *ssa.Function:
					add(x)
				case *ssa.Type:
					for _, t := range []types.Type{x.Type(), types.NewPointer(x.Type())} {
						ms := w.prog.MethodSets.MethodSet(t)
						for i := 0; i < ms.Len(); i++ {
							if fn := w.prog.MethodValue(ms.At(i)); fn != nil && fn.Pkg == sp && fn.Synthetic == "" {
								add(fn)
							}
						}
					}
				}
			}
			sort.Slice(fns, func(i, j int) bool { return fns[i].String() < fns[j].String() })
			for _, fn := range fns {
				top := fn
				for top.Parent() != nil {
					top = top.Parent()
				}
				if strings.HasSuffix(w.prog.Fset.Position(top.Pos()).Filename, "_test.go") {
					continue
				}
				topKey := rel + "." + relName(top)
				var hits []string
				for _, b := range fn.Blocks {
					for _, ins := range b.Instrs {
						c, ok := ins.(ssa.CallInstruction)
						if !ok {
							continue
						}
						cc := c.Common()
						name, recv := "", ""
						if cc.IsInvoke() {
							name = cc.Method.Name()
							if n, ok := cc.Value.Type().(*types.Named); ok {
								recv = n.Obj().Name()
							}
						} else if callee := cc.StaticCallee(); callee != nil {
							name = callee.Name()
							if r := callee.Signature.Recv(); r != nil {
								t := r.Type()
								if p, ok := t.(*types.Pointer); ok {
									t = p.Elem()
								}
								if n, ok := t.(*types.Named); ok {
									recv = n.Obj().Name()
								}
							}
						}
						if !rule.Writers[name] || (len(rule.Recv) > 0 && !rule.Recv[recv]) {
							continue
						}
						hits = append(hits, recv+"."+name)
					}
				}
				if len(hits) == 0 {
					continue
				}
				ct := w.contracts[modPath+"/"+rel+"::"+relName(top)]
				if rule.View != "" {
					if vc := w.contracts[modPath+"/"+rel+"::"+relName(top)+"@"+rule.View]; vc != nil && !vc.Trusted && contains(vc.Props, prop) {
						ct = vc
					}
				}
				label := "writer_under_contract:" + mangle(relName(top))
				if len(rules) > 1 {
					label = "writer_under_contract:" + mangle(rule.What) + ":" + mangle(relName(top))
				}
				switch {
				case ct != nil && !ct.Trusted && contains(ct.Props, prop):
					res.Obls = append(res.Obls, structural(topKey, label, []string{prop}, true, fmt.Sprintf("calls %s; the function is under a %s contract", strings.Join(hits, ", "), prop)))
				case rule.Allow[topKey] != "":
					res.Notes = append(res.Notes, fmt.Sprintf("%s calls %s: accepted, %s", topKey, strings.Join(hits, ", "), rule.Allow[topKey]))
					res.Obls = append(res.Obls, structural(topKey, label, []string{prop}, true, "allow-listed: "+rule.Allow[topKey]))
				default:
					res.Obls = append(res.Obls, structural(topKey, label, []string{prop}, false, fmt.Sprintf("%s writes %s (calls %s) but is not under a contract serving %s: an unverified path could change the state the property is about", topKey, rule.What, strings.Join(hits, ", "), prop)))
				}
			}
		}
	}
	return res
}
