package main

import (
	"fmt"
	"go/types"
	"os"
	"path/filepath"
	"regexp"
	"sort"
	"strings"

	"golang.org/x/tools/go/packages"
	"golang.org/x/tools/go/ssa"
	"golang.org/x/tools/go/ssa/ssautil"
)

type WorldComp struct {
	Name   string
	Sort   string
	Theory string // theory module that declares the sort (component unavailable unless the module is in use)
}

type SpecSig struct {
	Name   string
	Args   []string
	Res    string
	Module string
}

type TheoryModule struct {
	Name string
	Text string
	Deps []string
}

type Workspace struct {
	repo          string
	verif         string
	prog          *ssa.Program
	pkgs          []*packages.Package
	ssaPkgs       map[string]*ssa.Package
	funcs         map[string]*ssa.Function // pkgpath::relname -> function
	contracts     map[string]*Contract
	contractFiles []string
	prelude       map[string]*Contract
	world         map[string]*WorldComp
	worldOrder    []string
	specFuncs     map[string]*SpecSig
	theory        map[string]*TheoryModule
	loadErrs      []string
	known         *KnownFile
}

func loadWorkspace(repo, verif string, patterns []string) (*Workspace, error) {
	w := &Workspace{repo: repo, verif: verif, ssaPkgs: map[string]*ssa.Package{}, funcs: map[string]*ssa.Function{},
		world: map[string]*WorldComp{}, specFuncs: map[string]*SpecSig{}, theory: map[string]*TheoryModule{}}
	var err error
	w.contracts, w.contractFiles, err = loadRepoContracts(repo)
	if err != nil {
		return nil, err
	}
	w.prelude, err = loadPreludeContracts(filepath.Join(verif, "theory", "prelude"))
	if err != nil {
		return nil, err
	}
	if err := w.loadTheory(); err != nil {
		return nil, err
	}
	cfg := &packages.Config{Mode: packages.LoadAllSyntax, Dir: repo, Tests: false,
		Env: append(os.Environ(), "GOFLAGS=-mod=mod", "GOPROXY=off", "GOSUMDB=off", "GOTOOLCHAIN=local")}
	pkgs, err := packages.Load(cfg, patterns...)
	if err != nil {
		return nil, fmt.Errorf("packages.Load: %v", err)
	}
	for _, p := range pkgs {
		for _, e := range p.Errors {
			w.loadErrs = append(w.loadErrs, e.Error())
		}
	}
	if len(w.loadErrs) > 0 {
		return nil, fmt.Errorf("the repository does not type-check: %s", strings.Join(w.loadErrs[:min(3, len(w.loadErrs))], "; "))
	}
	prog, _ := ssautil.AllPackages(pkgs, ssa.InstantiateGenerics|ssa.GlobalDebug)
	prog.Build()
	w.prog = prog
	w.pkgs = pkgs
	for _, sp := range prog.AllPackages() {
		if !isRepoPkg(sp.Pkg) {
			continue
		}
		w.ssaPkgs[sp.Pkg.Path()] = sp
	}
	for fn := range ssautil.AllFunctions(prog) {
		var pk *types.Package
		if fn.Pkg != nil {
			pk = fn.Pkg.Pkg
		} else if p := fn.Parent(); p != nil {
			for p.Parent() != nil {
				p = p.Parent()
			}
			if p.Pkg != nil {
				pk = p.Pkg.Pkg
			}
		}
		if pk == nil || !isRepoPkg(pk) {
			continue
		}
		if fn.Synthetic != "" && fn.Parent() == nil && !strings.Contains(fn.Synthetic, "instance") {
			continue
		}
		w.funcs[pk.Path()+"::"+relName(fn)] = fn
	}
	return w, nil
}

var sigRe = regexp.MustCompile(`^\s*\((define-fun|define-fun-rec|declare-fun|declare-const)\s`)

func (w *Workspace) loadTheory() error {
	dir := filepath.Join(w.verif, "theory")
	ms, _ := filepath.Glob(filepath.Join(dir, "*.smt2"))
	sort.Strings(ms)
	for _, p := range ms {
		b, err := os.ReadFile(p)
		if err != nil {
			return err
		}
		name := strings.TrimSuffix(filepath.Base(p), ".smt2")
		tm := &TheoryModule{Name: name, Text: string(b)}
		for _, l := range strings.Split(tm.Text, "\n") {
			if strings.HasPrefix(l, "; requires:") {
				tm.Deps = strings.Fields(strings.TrimPrefix(l, "; requires:"))
			}
		}
		w.theory[name] = tm
		for _, m := range theorySortDeclRe.FindAllStringSubmatch(tm.Text, -1) {
			if !strings.HasPrefix(m[1], "Opt_") {
				theorySorts[m[1]] = true
			}
		}
		sx, err := parseSexps(tm.Text)
		if err != nil {
			return fmt.Errorf("%s: %v", p, err)
		}
		for _, s := range sx {
			if !s.IsL || len(s.List) < 3 {
				continue
			}
			switch s.List[0].Atom {
			case "define-fun", "define-fun-rec":
				if len(s.List) < 5 {
					continue
				}
				sig := &SpecSig{Name: s.List[1].Atom, Res: s.List[3].String(), Module: name}
				for _, a := range s.List[2].List {
					sig.Args = append(sig.Args, a.List[1].String())
				}
				w.specFuncs[sig.Name] = sig
			case "declare-fun":
				sig := &SpecSig{Name: s.List[1].Atom, Res: s.List[3].String(), Module: name}
				for _, a := range s.List[2].List {
					sig.Args = append(sig.Args, a.String())
				}
				w.specFuncs[sig.Name] = sig
			case "declare-const":
				w.specFuncs[s.List[1].Atom] = &SpecSig{Name: s.List[1].Atom, Res: s.List[2].String(), Module: name}
			}
		}
	}
	// functions of the base prelude
	for _, sig := range []*SpecSig{
		{Name: "str_lt", Args: []string{"Str", "Str"}, Res: "Bool"}, {Name: "str_le", Args: []string{"Str", "Str"}, Res: "Bool"},
		{Name: "str_len", Args: []string{"Str"}, Res: "Int"}, {Name: "str_cat", Args: []string{"Str", "Str"}, Res: "Str"},
		{Name: "tquo", Args: []string{"Int", "Int"}, Res: "Int"}, {Name: "trem", Args: []string{"Int", "Int"}, Res: "Int"},
	} {
		w.specFuncs[sig.Name] = sig
	}
	// world components
	b, err := os.ReadFile(filepath.Join(dir, "world.decl"))
	if err == nil {
		for i, l := range strings.Split(string(b), "\n") {
			l = strings.TrimSpace(l)
			if l == "" || strings.HasPrefix(l, "#") {
				continue
			}
			j := strings.IndexAny(l, " \t")
			if j < 0 {
				return fmt.Errorf("world.decl:%d: expected <name> <sort>", i+1)
			}
			name := l[:j]
			srt, th := strings.TrimSpace(l[j:]), ""
			if k := strings.LastIndex(srt, " @"); k >= 0 { // "<sort> @theory": the sort is declared by that theory module
				srt, th = strings.TrimSpace(srt[:k]), strings.TrimSpace(srt[k+2:])
			}
			w.world[name] = &WorldComp{Name: name, Sort: srt, Theory: th}
			w.worldOrder = append(w.worldOrder, name)
		}
	}
	return nil
}

func (g *Gen) useTheory(name string) {
	if name == "" || name == "base" || g.uses[name] {
		return
	}
	tm, ok := g.w.theory[name]
	if !ok {
		g.fail("unknown theory module %q", name)
	}
	g.uses[name] = true
	for _, d := range tm.Deps {
		g.useTheory(d)
	}
	g.ensureSortNames(tm.Text)
}

var theorySortDeclRe = regexp.MustCompile(`\(declare-datatypes \(\(([A-Za-z0-9_]+) 0\)\)`)
var codecNameRe = regexp.MustCompile(`\bunmarshal_(T_[A-Za-z0-9]+_[A-Za-z0-9]+)\b`)
var sortNameRe = regexp.MustCompile(`\bT_[A-Za-z0-9_]+`)
var opaqueNameRe = regexp.MustCompile(`\bO_[A-Za-z0-9_]+`)
var sliceNameRe = regexp.MustCompile(`\bSlice_(Str|Int|Bool)\b`)
var coinsNameRe = regexp.MustCompile(`\bCoins\b`)
var strMacroRe = regexp.MustCompile(`\{str "([^"]*)"\}`)

// ensureSortNames makes sure every struct sort mentioned in text is declared.
func (g *Gen) ensureSortNames(text string) {
	for _, m := range opaqueNameRe.FindAllString(text, -1) {
		g.sorts.opaque[m] = true
	}
	if coinsNameRe.MatchString(text) {
		g.sorts.opaque["Coins"] = true
	}
	for _, m := range sliceNameRe.FindAllStringSubmatch(text, -1) {
		switch m[1] {
		case "Str":
			g.sorts.heapFor(g.sorts.sortOf(types.NewSlice(types.Typ[types.String])))
		case "Int":
			g.sorts.heapFor(g.sorts.sortOf(types.NewSlice(types.Typ[types.Int64])))
		case "Bool":
			g.sorts.heapFor(g.sorts.sortOf(types.NewSlice(types.Typ[types.Bool])))
		}
	}
	defer func() {
		// option sorts are declared after the sorts they wrap
		for _, m := range optionSortRe.FindAllStringSubmatch(text, -1) {
			g.sorts.ensureOption(m[1])
		}
		for _, m := range optNameRe.FindAllStringSubmatch(text, -1) {
			g.sorts.ensureOption(m[1])
		}
	}()
	defer func() {
		for _, m := range codecNameRe.FindAllStringSubmatch(text, -1) {
			g.declareCodec(m[1])
		}
	}()
	for _, m := range sortNameRe.FindAllString(text, -1) {
		if _, ok := g.sorts.structs[m]; ok {
			continue
		}
		// selector names contain the sort name as a prefix: try progressively shorter prefixes
		name := m
		for {
			if g.sorts.ensureByName(name, g.w.lookupType) {
				break
			}
			k := strings.LastIndex(name, "_")
			if k <= 2 {
				break
			}
			name = name[:k]
		}
	}
}

func (w *Workspace) lookupType(alias, typ string) types.Type {
	for path, sp := range w.allTypePkgs() {
		if pkgAlias(path) != alias {
			continue
		}
		if o := sp.Scope().Lookup(typ); o != nil {
			if tn, ok := o.(*types.TypeName); ok {
				return tn.Type()
			}
		}
	}
	return nil
}

var typePkgCache map[string]*types.Package

func (w *Workspace) allTypePkgs() map[string]*types.Package {
	if typePkgCache != nil {
		return typePkgCache
	}
	typePkgCache = map[string]*types.Package{}
	for _, sp := range w.prog.AllPackages() {
		typePkgCache[sp.Pkg.Path()] = sp.Pkg
	}
	return typePkgCache
}

// theoryText returns the text of the used modules in dependency order.
func (g *Gen) theoryText() string {
	var order []string
	seen := map[string]bool{}
	var visit func(n string)
	visit = func(n string) {
		if seen[n] {
			return
		}
		seen[n] = true
		tm := g.w.theory[n]
		if tm == nil {
			return
		}
		for _, d := range tm.Deps {
			visit(d)
		}
		order = append(order, n)
	}
	var names []string
	for n := range g.uses {
		names = append(names, n)
	}
	sort.Strings(names)
	for _, n := range names {
		visit(n)
	}
	opaque := map[string]bool{}
	if g.contract != nil {
		for _, o := range g.contract.Opaque {
			opaque[o] = true
		}
	}
	var b strings.Builder
	for _, n := range order {
		text := strMacroRe.ReplaceAllStringFunc(g.w.theory[n].Text, func(m string) string {
			sm := strMacroRe.FindStringSubmatch(m)
			return strLit(sm[1])
		})
		if len(opaque) > 0 {
			text = hideDefinitions(text, opaque)
		}
		fmt.Fprintf(&b, "; ---- theory %s\n%s\n", n, text)
	}
	return b.String()
}

// hideDefinitions turns (define-fun f (args) R body) into (declare-fun f (sorts) R) for the given names.
func hideDefinitions(text string, names map[string]bool) string {
	var b strings.Builder
	for _, f := range splitTopLevelForms(text) {
		sx, _, err := parseSexp(f, 0)
		if err == nil && sx.IsL && len(sx.List) == 5 && (sx.List[0].Atom == "define-fun" || sx.List[0].Atom == "define-fun-rec") && names[sx.List[1].Atom] {
			var sorts []string
			for _, a := range sx.List[2].List {
				sorts = append(sorts, a.List[1].String())
			}
			fmt.Fprintf(&b, "(declare-fun %s (%s) %s) ; definition hidden (opaque)\n", sx.List[1].Atom, strings.Join(sorts, " "), sx.List[3].String())
			continue
		}
		b.WriteString(f)
		b.WriteString("\n")
	}
	return b.String()
}
