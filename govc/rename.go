package main

import (
	"fmt"
	"go/ast"
	"go/token"
	"go/types"
	"sort"
	"strings"

	"golang.org/x/tools/go/ssa"
)

// Rename-tolerant binding of contract identifiers.
//
// Loop invariants and hints may mention locals of the code by their source
// name. When a local is renamed, such an identifier no longer resolves. It is
// then matched against the locals in scope that the contract mentions nowhere
// (the renamed variable is one of them). Every injective assignment is tried
// and the first one under which all clauses translate (sort-check) is used.
// This cannot make a wrong proof succeed: invariants and hints are proved
// (entry + preservation, or at the return site) before they are assumed, so a
// wrong guess can only make an obligation fail.

var specialNames = map[string]bool{"true": true, "false": true, "nil": true, "W": true, "H": true, "ranged": true, "rangeindex": true,
	"iterpos": true, "rangekeys": true, "rangecount": true, "result": true, "err": true, "recv": true}

// identsOf collects the free identifiers of a spec expression (not field names, not function names, not
// quantifier-bound variables).
func identsOf(x ast.Expr, out map[string]bool) {
	var walk func(n ast.Expr, bound map[string]bool)
	walk = func(n ast.Expr, bound map[string]bool) {
		switch e := n.(type) {
		case nil:
		case *ast.Ident:
			if !bound[e.Name] {
				out[e.Name] = true
			}
		case *ast.SelectorExpr:
			walk(e.X, bound)
		case *ast.CallExpr:
			fn, _ := e.Fun.(*ast.Ident)
			args := e.Args
			nb := bound
			if fn != nil && (fn.Name == "forall" || fn.Name == "exists") && len(args) >= 2 {
				if id, ok := args[0].(*ast.Ident); ok {
					nb = map[string]bool{id.Name: true}
					for k := range bound {
						nb[k] = true
					}
					args = args[1:]
				}
			}
			if fn == nil {
				walk(e.Fun, bound)
			}
			for i, a := range args {
				if fn != nil && fn.Name == "setf" && i == 1 {
					continue // field name
				}
				if fn != nil && (fn.Name == "smt" || fn.Name == "unmarshal" || fn.Name == "zero" || fn.Name == "jsonok" || fn.Name == "jsondec" || fn.Name == "gocall") && i == 0 {
					continue // sort name literal
				}
				walk(a, nb)
			}
		case *ast.BinaryExpr:
			walk(e.X, bound)
			walk(e.Y, bound)
		case *ast.UnaryExpr:
			walk(e.X, bound)
		case *ast.StarExpr:
			walk(e.X, bound)
		case *ast.ParenExpr:
			walk(e.X, bound)
		case *ast.IndexExpr:
			walk(e.X, bound)
			walk(e.Index, bound)
		case *ast.SliceExpr:
			walk(e.X, bound)
			walk(e.Low, bound)
			walk(e.High, bound)
		}
	}
	walk(x, map[string]bool{})
}

// mentioned: every identifier that occurs anywhere in the contract.
func (ct *Contract) mentioned() map[string]bool {
	if ct.mentionedIDs != nil {
		return ct.mentionedIDs
	}
	m := map[string]bool{}
	add := func(cs []*Clause) {
		for _, c := range cs {
			if c.Expr != nil {
				identsOf(c.Expr, m)
			}
		}
	}
	add(ct.Requires)
	add(ct.Ensures)
	add(ct.Hints)
	add(ct.Canary)
	add(ct.Preserves)
	for _, l := range ct.Lets {
		identsOf(l.Expr, m)
		m[l.Name] = true
	}
	for _, ls := range ct.Loops {
		add(ls.Invariants)
	}
	for _, ls := range ct.Iters {
		add(ls.Invariants)
	}
	ct.mentionedIDs = m
	return m
}

func (e *Env) resolves(name string) bool {
	if specialNames[name] || strings.HasPrefix(name, "result") || strings.HasPrefix(name, "arg") {
		return true
	}
	if _, ok := e.bound[name]; ok {
		return true
	}
	if _, ok := e.lets[name]; ok {
		return true
	}
	if _, ok := e.cellVars[name]; ok {
		return true
	}
	if _, ok := e.vars[name]; ok {
		return true
	}
	if sig, ok := e.g.w.specFuncs[name]; ok && len(sig.Args) == 0 {
		return true
	}
	if to, ok := e.g.renames[name]; ok && to != name {
		return true // mapped by the source-order alignment
	}
	return false
}

// bindRenamed computes env.alias for the given clauses. `protect` lists program names that must not be used as
// targets (parameters). Returns a note for the evidence when something was bound.
func (g *Gen) bindRenamed(env *Env, ct *Contract, clauses []*Clause, protect map[string]bool) string {
	if ct == nil || len(clauses) == 0 {
		return ""
	}
	used := map[string]bool{}
	for _, c := range clauses {
		if c.Expr != nil {
			identsOf(c.Expr, used)
		}
	}
	// identifiers reached through lets
	for changed := true; changed; {
		changed = false
		for _, l := range ct.Lets {
			if used[l.Name] {
				sub := map[string]bool{}
				identsOf(l.Expr, sub)
				for k := range sub {
					if !used[k] {
						used[k] = true
						changed = true
					}
				}
			}
		}
	}
	var unresolved []string
	for n := range used {
		if !env.resolves(n) {
			unresolved = append(unresolved, n)
		}
	}
	if len(unresolved) == 0 || len(unresolved) > 3 {
		return ""
	}
	sort.Strings(unresolved)
	ment := ct.mentioned()
	var cands []string
	for n := range env.vars {
		if !ment[n] && !protect[n] && !specialNames[n] && !strings.HasPrefix(n, "result") && !strings.HasPrefix(n, "arg") && !strings.HasPrefix(n, "_") {
			cands = append(cands, n)
		}
	}
	for n := range env.cellVars {
		if !ment[n] && !protect[n] {
			cands = append(cands, n)
		}
	}
	sort.Strings(cands)
	if len(cands) < len(unresolved) || len(cands) > 12 {
		return ""
	}
	try := func(alias map[string]string) (ok bool) {
		defer func() {
			if rec := recover(); rec != nil {
				if _, isEE := rec.(engineError); isEE {
					ok = false
					return
				}
				panic(rec)
			}
		}()
		te := *env
		te.alias = alias
		for _, c := range clauses {
			if c.Expr != nil {
				te.trBool(c.Expr)
			}
		}
		return true
	}
	var found map[string]string
	var rec func(i int, cur map[string]string, taken map[string]bool) bool
	rec = func(i int, cur map[string]string, taken map[string]bool) bool {
		if i == len(unresolved) {
			cp := map[string]string{}
			for k, v := range cur {
				cp[k] = v
			}
			if try(cp) {
				found = cp
				return true
			}
			return false
		}
		for _, c := range cands {
			if taken[c] {
				continue
			}
			cur[unresolved[i]] = c
			taken[c] = true
			if rec(i+1, cur, taken) {
				return true
			}
			delete(cur, unresolved[i])
			taken[c] = false
		}
		return false
	}
	if !rec(0, map[string]string{}, map[string]bool{}) {
		return ""
	}
	env.alias = found
	var parts []string
	for _, u := range unresolved {
		parts = append(parts, fmt.Sprintf("%s -> %s", u, found[u]))
	}
	return "contract identifiers bound to renamed locals: " + strings.Join(parts, ", ")
}

// ---------------------------------------------------------------------------
// Source-order alignment. A contract may carry a `locals` clause: the named
// locals (and captured variables) of the function in source order, recorded
// when the contract was written (bin/gen-locals). When a name used by the
// contract no longer exists, the recorded list is aligned with the current
// list (longest common subsequence of unchanged names); names that sit between
// the same unchanged neighbours, in equal number, are matched in order. A
// renamed local is thereby mapped to its new name. As with the trial binding,
// a wrong mapping cannot make a wrong proof succeed.

func orderedLocals(fn *ssa.Function) []string {
	type pn struct {
		pos  token.Pos
		name string
	}
	var all []pn
	seen := map[string]bool{}
	for _, p := range fn.Params {
		seen[p.Name()] = true
	}
	add := func(pos token.Pos, name string) {
		if name == "" || name == "_" || seen[name] || !pos.IsValid() {
			return
		}
		seen[name] = true
		all = append(all, pn{pos, name})
	}
	for _, fv := range fn.FreeVars {
		add(fv.Pos(), fv.Name())
	}
	for _, b := range fn.Blocks {
		for _, ins := range b.Instrs {
			switch x := ins.(type) {
			case *ssa.Alloc:
				if x.Comment != "" && !strings.Contains(x.Comment, " ") && x.Comment != "complit" && x.Comment != "slicelit" && x.Comment != "varargs" && x.Comment != "new" && x.Comment != "makeslice" {
					add(x.Pos(), x.Comment)
				}
			case *ssa.DebugRef:
				if id, ok := x.Expr.(*ast.Ident); ok {
					if obj, isVar := x.Object().(*types.Var); isVar && !obj.IsField() {
						add(obj.Pos(), id.Name)
					}
				}
			}
		}
	}
	sort.SliceStable(all, func(i, j int) bool { return all[i].pos < all[j].pos })
	var out []string
	for _, p := range all {
		out = append(out, p.name)
	}
	return out
}

// alignLocals maps recorded names to current names.
func alignLocals(recorded, current []string) map[string]string {
	n, m := len(recorded), len(current)
	lcs := make([][]int, n+1)
	for i := range lcs {
		lcs[i] = make([]int, m+1)
	}
	for i := n - 1; i >= 0; i-- {
		for j := m - 1; j >= 0; j-- {
			if recorded[i] == current[j] {
				lcs[i][j] = lcs[i+1][j+1] + 1
			} else if lcs[i+1][j] >= lcs[i][j+1] {
				lcs[i][j] = lcs[i+1][j]
			} else {
				lcs[i][j] = lcs[i][j+1]
			}
		}
	}
	out := map[string]string{}
	i, j := 0, 0
	var ga, gb []string
	flush := func() {
		if len(ga) == len(gb) {
			for k := range ga {
				out[ga[k]] = gb[k]
			}
		}
		ga, gb = nil, nil
	}
	for i < n && j < m {
		switch {
		case recorded[i] == current[j]:
			flush()
			i++
			j++
		case lcs[i+1][j] >= lcs[i][j+1]:
			ga = append(ga, recorded[i])
			i++
		default:
			gb = append(gb, current[j])
			j++
		}
	}
	ga = append(ga, recorded[i:]...)
	gb = append(gb, current[j:]...)
	flush()
	return out
}
