package main

import (
	"bufio"
	"fmt"
	"go/ast"
	"go/parser"
	"os"
	"path/filepath"
	"regexp"
	"strconv"
	"strings"
)

// Contracts are structured comments ("//@ ...") in comment-only Go files.
// In /repo they are guarded by the build tag `verif`
// (zz_contracts_verif.go); trusted contracts of dependencies live in
// /verif/theory/prelude/*.go.

type Clause struct {
	Kind   string // requires | ensures | invariant | assert
	Label  string
	Props  []string // property ids this clause belongs to (empty: function default)
	Src    string
	Expr   ast.Expr
	Panics bool   // requires whose violation is a panic of the callee (nopanic obligation at call sites)
	Ground bool   // prove from the ground (quantifier-free) part of the assumptions only
	All    bool   // hint that must be expressible and hold at every return site
	Apply  string // hint only: "lemma with x = e, ...": a lemma instance assumed at the return sites (terms may name locals)
	Known  string
}

type LoopSpec struct {
	Invariants []*Clause
	Modifies   []string
	Preserves  []string
	Applies    []string // lemma instances assumed at the loop head, terms evaluated in the loop-head state
}

type Contract struct {
	Key          string // function key (package relative for repo, full for prelude)
	View         string // "" or the name of the view (level of abstraction) this contract belongs to; Key ends in "@<view>"
	PkgPath      string // package the key is relative to ("" for prelude)
	File         string
	Props        []string
	Requires     []*Clause
	Ensures      []*Clause
	Modifies     []string
	ModAll       bool
	Lets         []LetDef
	Loops        map[int]*LoopSpec
	Iters        map[int]*LoopSpec // invariants for iterate-with-closure call sites, by ordinal
	Trusted      bool
	argAlias     map[string]string // adopted copies: name of a caller's variable -> the helper's parameter that receives it
	adopted      bool              // a copy handed to an inlined helper that took over loops of the function under contract
	Refined      string            // trusted table-level accessor contract that a lemma of the same package derives from the verified store-level (@store) contract of the same function
	Pure         bool
	Inline       bool
	Concrete     bool // strings concrete
	Bounded      int
	NoPanic      bool // claim nopanic obligations
	Overflow     bool
	MathArith    bool // `arith mathematical: <why>`: int results of this function are not checked against the machine range (A-ARITH)
	OverflowOnly []string // `overflow only a b`: machine-range obligations only for results assigned to these locals / fields
	Uses         []string
	Vars         []LemmaVar // lemma only
	IsLemma      bool
	Preserves    []*Clause // closure contracts: facts over captured variables and world that hold before and after each call (requires + ensures); the iterating caller checks them once and may assume them afterwards
	Steps        []*Clause // closure contracts: reflexive-transitive two-state relations established by every call
	Iterates     bool      // the function applies its closure argument to each element of a collection (A-ITER)
	Hints        []*Clause // intermediate facts at the return sites (may mention named locals); proved, then assumed
	Canary       []*Clause // deliberately false ensures: must be refuted
	EffectFree   bool
	Assumes      []string // free text assumptions recorded in evidence
	ArgNames     []string // explicit parameter names for prelude contracts
	Allocates    bool     // the callee may allocate fresh slices/maps (fresh(result) is meaningful)
	Applies      []string // "lemmaName with x = e, y = e": instances of other lemmas of the same package, assumed (the lemma itself is an obligation of its own)
	Opaque       []string // spec functions whose definitions are hidden (declared, not defined) in this function's VCs
	used         bool
	mentionedIDs map[string]bool
	Params       []string // parameter names (receiver first) when the contract was written: a renamed parameter is found by position
	Locals       []string // named locals of the function in source order when the contract was written (bin/gen-locals)
}

type LetDef struct {
	Name string
	Expr ast.Expr
	Src  string
}

type LemmaVar struct {
	Name string
	Sort string
}

var labelRe = regexp.MustCompile(`^\[([A-Za-z0-9_\-:/.]+)((?:\s+@C[0-9]+)*)(\s+panics|\s+ground|\s+all)?\]\s*`)

// preprocess turns "a ==> b" (lowest precedence, right associative) into
// implies(a, b) so that the rest is a plain Go expression.
func preprocessImplies(src string) string {
	depth := 0
	inStr := false
	for i := 0; i+2 < len(src); i++ {
		c := src[i]
		if inStr {
			if c == '\\' {
				i++
			} else if c == '"' {
				inStr = false
			}
			continue
		}
		switch c {
		case '"':
			inStr = true
		case '(', '[', '{':
			depth++
		case ')', ']', '}':
			depth--
		case '=':
			if depth == 0 && src[i:i+3] == "==>" {
				return "implies(" + src[:i] + ", " + preprocessImplies(src[i+3:]) + ")"
			}
		}
	}
	return src
}

// preprocessNested applies preprocessImplies inside every parenthesised group
// too, so that (a ==> b) && c works.
func preprocessNested(src string) string {
	var out strings.Builder
	i := 0
	for i < len(src) {
		c := src[i]
		if c == '"' {
			j := i + 1
			for j < len(src) && src[j] != '"' {
				if src[j] == '\\' {
					j++
				}
				j++
			}
			out.WriteString(src[i:min(j+1, len(src))])
			i = j + 1
			continue
		}
		if c == '(' {
			depth := 1
			j := i + 1
			inStr := false
			for j < len(src) && depth > 0 {
				if inStr {
					if src[j] == '\\' {
						j++
					} else if src[j] == '"' {
						inStr = false
					}
				} else if src[j] == '"' {
					inStr = true
				} else if src[j] == '(' {
					depth++
				} else if src[j] == ')' {
					depth--
				}
				j++
			}
			inner := src[i+1 : j-1]
			// split at top-level commas so that each argument is handled separately
			args := splitTopLevel(inner, ',')
			for k, a := range args {
				args[k] = preprocessNested(a)
			}
			out.WriteString("(" + strings.Join(args, ",") + ")")
			i = j
			continue
		}
		out.WriteByte(c)
		i++
	}
	return preprocessImplies(out.String())
}

func splitTopLevel(s string, sep byte) []string {
	var parts []string
	depth := 0
	inStr := false
	start := 0
	for i := 0; i < len(s); i++ {
		c := s[i]
		if inStr {
			if c == '\\' {
				i++
			} else if c == '"' {
				inStr = false
			}
			continue
		}
		switch c {
		case '"':
			inStr = true
		case '(', '[', '{':
			depth++
		case ')', ']', '}':
			depth--
		default:
			if c == sep && depth == 0 {
				parts = append(parts, s[start:i])
				start = i + 1
			}
		}
	}
	parts = append(parts, s[start:])
	return parts
}

func parseSpecExpr(src string) (ast.Expr, error) {
	p := preprocessNested(strings.TrimSpace(src))
	e, err := parser.ParseExpr(p)
	if err != nil {
		return nil, fmt.Errorf("cannot parse spec expression %q: %v", src, err)
	}
	return e, nil
}

func parseClause(kind, rest string) (*Clause, error) {
	c := &Clause{Kind: kind}
	if m := labelRe.FindStringSubmatch(rest); m != nil {
		c.Label = m[1]
		for _, p := range strings.Fields(m[2]) {
			c.Props = append(c.Props, strings.TrimPrefix(p, "@"))
		}
		c.Panics = strings.TrimSpace(m[3]) == "panics"
		c.Ground = strings.TrimSpace(m[3]) == "ground"
		c.All = strings.TrimSpace(m[3]) == "all"
		rest = rest[len(m[0]):]
	}
	c.Src = strings.TrimSpace(rest)
	e, err := parseSpecExpr(c.Src)
	if err != nil {
		return nil, err
	}
	c.Expr = e
	return c, nil
}

// readContractLines extracts the //@ lines of a file, joining continuation
// lines (//@+ ...).
func readContractLines(path string) ([]string, []int, string, error) {
	f, err := os.Open(path)
	if err != nil {
		return nil, nil, "", err
	}
	defer f.Close()
	var lines []string
	var nums []int
	pkg := ""
	sc := bufio.NewScanner(f)
	sc.Buffer(make([]byte, 1<<20), 1<<20)
	n := 0
	for sc.Scan() {
		n++
		l := strings.TrimSpace(sc.Text())
		if strings.HasPrefix(l, "package ") {
			pkg = strings.TrimSpace(strings.TrimPrefix(l, "package "))
		}
		if strings.HasPrefix(l, "//@+") {
			if len(lines) == 0 {
				return nil, nil, "", fmt.Errorf("%s:%d: continuation without a clause", path, n)
			}
			lines[len(lines)-1] += " " + strings.TrimSpace(strings.TrimPrefix(l, "//@+"))
			continue
		}
		if strings.HasPrefix(l, "//@") {
			body := strings.TrimSpace(strings.TrimPrefix(l, "//@"))
			if body == "" || strings.HasPrefix(body, "#") {
				continue
			}
			lines = append(lines, body)
			nums = append(nums, n)
		}
	}
	return lines, nums, pkg, sc.Err()
}

func parseContractFile(path string, pkgPath string) ([]*Contract, error) {
	lines, nums, _, err := readContractLines(path)
	if err != nil {
		return nil, err
	}
	var out []*Contract
	var cur *Contract
	for i, l := range lines {
		fail := func(e error) error { return fmt.Errorf("%s:%d: %v", path, nums[i], e) }
		kw, rest := l, ""
		if j := strings.IndexAny(l, " \t"); j >= 0 {
			kw, rest = l[:j], strings.TrimSpace(l[j+1:])
		}
		if kw == "func" || kw == "lemma" {
			view := ""
			if j := strings.LastIndex(rest, " @"); j >= 0 && kw == "func" {
				// "func <key> @<view>": a second contract of the same function, stated at another level of abstraction
				// (e.g. @store: against the raw key-value store). Verified like any contract; at call sites it is used only
				// while verifying a function of the same view.
				view = strings.TrimSpace(rest[j+2:])
				rest = strings.TrimSpace(rest[:j]) + "@" + view
			}
			cur = &Contract{Key: rest, View: view, PkgPath: pkgPath, File: path, Loops: map[int]*LoopSpec{}, Iters: map[int]*LoopSpec{}, IsLemma: kw == "lemma"}
			out = append(out, cur)
			continue
		}
		if cur == nil {
			return nil, fail(fmt.Errorf("clause %q outside a func/lemma block", kw))
		}
		switch kw {
		case "props":
			cur.Props = strings.Fields(rest)
		case "requires":
			c, err := parseClause("requires", rest)
			if err != nil {
				return nil, fail(err)
			}
			if c.Label == "" {
				c.Label = fmt.Sprintf("pre%d", len(cur.Requires))
			}
			cur.Requires = append(cur.Requires, c)
		case "ensures", "prove":
			c, err := parseClause("ensures", rest)
			if err != nil {
				return nil, fail(err)
			}
			if c.Label == "" {
				c.Label = fmt.Sprintf("post%d", len(cur.Ensures))
			}
			cur.Ensures = append(cur.Ensures, c)
		case "step":
			// closure contracts: a two-state relation (mentions old(...)) that every call establishes between its entry and exit
			// state; it must be reflexive and transitive (checked at the iterating call site), so it holds across the iteration
			c, err := parseClause("step", rest)
			if err != nil {
				return nil, fail(err)
			}
			if c.Label == "" {
				c.Label = fmt.Sprintf("step%d", len(cur.Steps))
			}
			cur.Steps = append(cur.Steps, c)
			en := *c
			en.Kind = "ensures"
			cur.Ensures = append(cur.Ensures, &en)
		case "preserves":
			c, err := parseClause("preserves", rest)
			if err != nil {
				return nil, fail(err)
			}
			if c.Label == "" {
				c.Label = fmt.Sprintf("preserved%d", len(cur.Preserves))
			}
			cur.Preserves = append(cur.Preserves, c)
			rq := *c
			rq.Kind = "requires"
			cur.Requires = append(cur.Requires, &rq)
			en := *c
			en.Kind = "ensures"
			cur.Ensures = append(cur.Ensures, &en)
		case "iterates":
			cur.Iterates = true
		case "hint":
			if strings.HasPrefix(rest, "apply ") {
				tr, _ := parseSpecExpr("true")
				cur.Hints = append(cur.Hints, &Clause{Kind: "hint", Label: fmt.Sprintf("lemma_instance_%d", len(cur.Hints)), Src: rest, Expr: tr, Apply: strings.TrimSpace(rest[6:])})
				continue
			}
			c, err := parseClause("hint", rest)
			if err != nil {
				return nil, fail(err)
			}
			if c.Label == "" {
				c.Label = fmt.Sprintf("hint%d", len(cur.Hints))
			}
			cur.Hints = append(cur.Hints, c)
		case "canary":
			c, err := parseClause("canary", rest)
			if err != nil {
				return nil, fail(err)
			}
			if c.Label == "" {
				c.Label = fmt.Sprintf("canary%d", len(cur.Canary))
			}
			cur.Canary = append(cur.Canary, c)
		case "modifies":
			for _, m := range splitTopLevel(rest, ',') {
				m = strings.TrimSpace(m)
				if m == "*" {
					cur.ModAll = true
				} else if m != "" && m != "nothing" {
					cur.Modifies = append(cur.Modifies, m)
				}
			}
		case "let":
			j := strings.Index(rest, "=")
			if j < 0 {
				return nil, fail(fmt.Errorf("let needs name = expr"))
			}
			name := strings.TrimSpace(rest[:j])
			e, err := parseSpecExpr(rest[j+1:])
			if err != nil {
				return nil, fail(err)
			}
			cur.Lets = append(cur.Lets, LetDef{Name: name, Expr: e, Src: rest[j+1:]})
		case "loop", "iter":
			f := strings.Fields(rest)
			if len(f) < 2 {
				return nil, fail(fmt.Errorf("%s <ordinal> invariant|modifies ...", kw))
			}
			ord, err := strconv.Atoi(f[0])
			if err != nil {
				return nil, fail(err)
			}
			tbl := cur.Loops
			if kw == "iter" {
				tbl = cur.Iters
			}
			ls := tbl[ord]
			if ls == nil {
				ls = &LoopSpec{}
				tbl[ord] = ls
			}
			after := strings.TrimSpace(rest[strings.Index(rest, f[1])+len(f[1]):])
			switch f[1] {
			case "invariant":
				c, err := parseClause("invariant", after)
				if err != nil {
					return nil, fail(err)
				}
				if c.Label == "" {
					c.Label = fmt.Sprintf("inv%d", len(ls.Invariants))
				}
				ls.Invariants = append(ls.Invariants, c)
			case "modifies":
				for _, m := range splitTopLevel(after, ',') {
					if m = strings.TrimSpace(m); m != "" {
						ls.Modifies = append(ls.Modifies, m)
					}
				}
			case "preserves":
				for _, m := range splitTopLevel(after, ',') {
					if m = strings.TrimSpace(m); m != "" {
						ls.Preserves = append(ls.Preserves, m)
					}
				}
			case "apply":
				ls.Applies = append(ls.Applies, after)
			default:
				return nil, fail(fmt.Errorf("unknown loop clause %q", f[1]))
			}
		case "trusted":
			cur.Trusted = true
		case "refined":
			cur.Refined = strings.TrimSpace(rest)
		case "pure":
			cur.Pure = true
		case "inline":
			cur.Inline = true
		case "effectfree":
			cur.EffectFree = true
		case "strings":
			cur.Concrete = rest == "concrete"
		case "bounded":
			n, err := strconv.Atoi(rest)
			if err != nil {
				return nil, fail(err)
			}
			cur.Bounded = n
		case "nopanic":
			cur.NoPanic = true
		case "arith":
			if !strings.HasPrefix(rest, "mathematical:") || strings.TrimSpace(strings.TrimPrefix(rest, "mathematical:")) == "" {
				return nil, fail(fmt.Errorf("expected `arith mathematical: <reason>`"))
			}
			cur.MathArith = true
			cur.Assumes = append(cur.Assumes, "A-ARITH: integer results of this function are treated as mathematical integers (not checked against the machine range): "+strings.TrimSpace(strings.TrimPrefix(rest, "mathematical:")))
		case "overflow":
			cur.Overflow = true
			if strings.HasPrefix(rest, "only ") {
				cur.OverflowOnly = strings.Fields(rest[5:])
			}
		case "uses":
			cur.Uses = append(cur.Uses, strings.Fields(rest)...)
		case "locals":
			cur.Locals = strings.Fields(rest)
		case "params":
			cur.Params = strings.Fields(rest)
		case "apply":
			cur.Applies = append(cur.Applies, rest)
		case "allocates":
			cur.Allocates = true
		case "opaque":
			cur.Opaque = append(cur.Opaque, strings.Fields(rest)...)
		case "args":
			cur.ArgNames = strings.Fields(rest)
		case "assumes":
			cur.Assumes = append(cur.Assumes, rest)
		case "ghost":
			f := strings.SplitN(rest, " ", 2)
			if len(f) != 2 {
				return nil, fail(fmt.Errorf("ghost <name> <sort>"))
			}
			cur.Vars = append(cur.Vars, LemmaVar{Name: f[0], Sort: strings.TrimSpace(f[1])})
		case "var":
			f := strings.SplitN(rest, " ", 2)
			if len(f) != 2 {
				return nil, fail(fmt.Errorf("var <name> <sort>"))
			}
			cur.Vars = append(cur.Vars, LemmaVar{Name: f[0], Sort: strings.TrimSpace(f[1])})
		default:
			return nil, fail(fmt.Errorf("unknown contract keyword %q", kw))
		}
	}
	return out, nil
}

// loadRepoContracts finds every zz_contracts_verif.go below root.
func loadRepoContracts(root string) (map[string]*Contract, []string, error) {
	out := map[string]*Contract{}
	var files []string
	err := filepath.Walk(root, func(p string, info os.FileInfo, err error) error {
		if err != nil {
			return nil
		}
		if info.IsDir() {
			n := info.Name()
			if n == ".git" || n == "node_modules" || n == "docs" {
				return filepath.SkipDir
			}
			return nil
		}
		if info.Name() != "zz_contracts_verif.go" {
			return nil
		}
		rel, _ := filepath.Rel(root, filepath.Dir(p))
		pkgPath := modPath
		if rel != "." {
			pkgPath = modPath + "/" + filepath.ToSlash(rel)
		}
		cs, err := parseContractFile(p, pkgPath)
		if err != nil {
			return err
		}
		files = append(files, p)
		for _, c := range cs {
			k := pkgPath + "::" + c.Key
			if _, dup := out[k]; dup {
				return fmt.Errorf("%s: duplicate contract for %s", p, c.Key)
			}
			out[k] = c
		}
		return nil
	})
	return out, files, err
}

func loadPreludeContracts(dir string) (map[string]*Contract, error) {
	out := map[string]*Contract{}
	ms, _ := filepath.Glob(filepath.Join(dir, "*.go"))
	for _, p := range ms {
		cs, err := parseContractFile(p, "")
		if err != nil {
			return nil, err
		}
		for _, c := range cs {
			c.Trusted = true
			if _, dup := out[c.Key]; dup {
				return nil, fmt.Errorf("%s: duplicate prelude contract for %s", p, c.Key)
			}
			out[c.Key] = c
		}
	}
	return out, nil
}
