package main

import (
	"fmt"
	"go/types"
	"regexp"
	"sort"
	"strings"
)

// Mapping of Go types to SMT sorts. Struct types of the repository (and a few
// selected SDK structs) become SMT datatypes; everything else external is an
// opaque declared sort.

const modPath = "github.com/jackalLabs/canine-chain/v4"

type FieldInfo struct {
	Name   string
	Sel    string
	Sort   string
	GoType types.Type
}

type StructInfo struct {
	Sort   string
	Ctor   string
	Fields []FieldInfo
}

type Sorts struct {
	order    []string // declaration order of datatype sorts
	decl     map[string]string
	structs  map[string]*StructInfo
	opaque   map[string]bool
	aliases  map[string]string // alias sort -> underlying (define-sort)
	sliceEl  map[string]string // Slice_X -> elem sort
	sliceGo  map[string]types.Type
	mapKV    map[string][2]string
	inprog   map[string]bool
	pkgs     map[string]*types.Package // alias -> package (for lookup by sort name)
	heapUsed map[string]string         // heap name -> sort
}

func newSorts() *Sorts {
	return &Sorts{decl: map[string]string{}, structs: map[string]*StructInfo{}, opaque: map[string]bool{},
		aliases: map[string]string{}, sliceEl: map[string]string{}, sliceGo: map[string]types.Type{}, mapKV: map[string][2]string{},
		inprog: map[string]bool{}, pkgs: map[string]*types.Package{}, heapUsed: map[string]string{}}
}

// named types mapped to fixed sorts
var sortOverrides = map[string]string{
	"github.com/cosmos/cosmos-sdk/types.Dec":        "Int", // 18-decimal fixed point, scaled integer
	"github.com/cosmos/cosmos-sdk/types.Int":        "Int",
	"github.com/cosmos/cosmos-sdk/types.Uint":       "Int",
	"github.com/cosmos/cosmos-sdk/types.AccAddress": "Str",
	"github.com/cosmos/cosmos-sdk/types.Context":    "Ctx",
	"github.com/cosmos/cosmos-sdk/types.Coins":      "Coins",
	"time.Time":       "Int", // microseconds are too coarse: nanoseconds since epoch
	"time.Duration":   "Int", // nanoseconds
	"context.Context": "Ctx",
	"math/big.Int":    "Int",
	"github.com/cosmos/cosmos-sdk/store/prefix.Store": "Str", // a prefix store is represented by its accumulated key prefix
}

// external structs that are expanded into datatypes
var expandExternal = map[string]bool{
	"github.com/cosmos/cosmos-sdk/types.Coin": true,
}

func pkgAlias(path string) string {
	if path == modPath+"/types" {
		return "jkl"
	}
	if strings.HasPrefix(path, modPath+"/") {
		rest := strings.TrimPrefix(path, modPath+"/")
		parts := strings.Split(rest, "/")
		if parts[0] == "x" && len(parts) >= 2 {
			if len(parts) == 2 {
				return parts[1] + "m"
			}
			switch parts[2] {
			case "types":
				return parts[1]
			case "keeper":
				return parts[1] + "k"
			default:
				return parts[1] + "_" + strings.Join(parts[2:], "_")
			}
		}
		return mangle(rest)
	}
	if path == "github.com/cosmos/cosmos-sdk/types" {
		return "sdk"
	}
	parts := strings.Split(path, "/")
	if len(parts) > 2 {
		parts = parts[len(parts)-2:]
	}
	return mangle(strings.Join(parts, "_"))
}

func isRepoPkg(p *types.Package) bool {
	return p != nil && (p.Path() == modPath || strings.HasPrefix(p.Path(), modPath+"/"))
}

func (s *Sorts) sortOf(t types.Type) string {
	switch tt := t.(type) {
	case *types.Named:
		obj := tt.Obj()
		full := obj.Name()
		if obj.Pkg() != nil {
			full = obj.Pkg().Path() + "." + obj.Name()
		}
		if o, ok := sortOverrides[full]; ok {
			if o != "Int" && o != "Str" && o != "Bool" {
				s.opaque[o] = true
			}
			return o
		}
		if full == "error" {
			return "Err"
		}
		switch u := tt.Underlying().(type) {
		case *types.Struct:
			alias := "builtin"
			if obj.Pkg() != nil {
				alias = pkgAlias(obj.Pkg().Path())
				s.pkgs[alias] = obj.Pkg()
			}
			name := "T_" + alias + "_" + obj.Name()
			if !isRepoPkg(obj.Pkg()) && !expandExternal[full] {
				name = "O_" + alias + "_" + obj.Name()
				s.opaque[name] = true
				return name
			}
			s.ensureStruct(name, u)
			return name
		case *types.Interface:
			if full == "error" {
				return "Err"
			}
			return "Iface"
		default:
			return s.sortOf(u)
		}
	case *types.Alias:
		return s.sortOf(types.Unalias(tt))
	case *types.Basic:
		switch {
		case tt.Info()&types.IsBoolean != 0:
			return "Bool"
		case tt.Info()&types.IsInteger != 0:
			return "Int"
		case tt.Info()&types.IsString != 0:
			return "Str"
		case tt.Kind() == types.UnsafePointer:
			return "Int"
		case tt.Kind() == types.UntypedNil:
			return "Nil"
		}
		s.opaque["O_float"] = true
		return "O_float"
	case *types.Pointer:
		return "Int" // term-level pointers are locations; static pointers never reach here
	case *types.Slice:
		if b, ok := tt.Elem().Underlying().(*types.Basic); ok && (b.Kind() == types.Byte || b.Kind() == types.Uint8) {
			return "Str"
		}
		el := s.sortOf(tt.Elem())
		name := "Slice_" + mangle(el)
		if _, ok := s.sliceEl[name]; !ok {
			s.sliceEl[name] = el
			s.sliceGo[name] = tt.Elem()
			s.addDecl(name, fmt.Sprintf("(declare-datatypes ((%s 0)) (((mk_%s (arr_%s Int) (off_%s Int) (len_%s Int) (cap_%s Int)))))", name, name, name, name, name, name))
			// element read through a slice: an uninterpreted symbol (usable as a quantifier trigger) tied to the heap by its defining axiom
			s.addDecl("sget_"+name, fmt.Sprintf("(declare-fun sget_%s ((Array Int (Array Int %s)) %s Int) %s)\n(assert (forall ((h (Array Int (Array Int %s))) (s %s) (i Int)) (! (= (sget_%s h s i) (select (select h (arr_%s s)) (+ (off_%s s) i))) :pattern ((sget_%s h s i)))))", name, el, name, el, el, name, name, name, name, name))
		}
		return name
	case *types.Array:
		el := s.sortOf(tt.Elem())
		return "(Array Int " + el + ")"
	case *types.Map:
		k := s.sortOf(tt.Key())
		v := s.sortOf(tt.Elem())
		name := "MapRef_" + mangle(k) + "_" + mangle(v)
		if _, ok := s.mapKV[name]; !ok {
			s.mapKV[name] = [2]string{k, v}
			mv := "MapVal_" + mangle(k) + "_" + mangle(v)
			s.addDecl(mv, fmt.Sprintf("(declare-datatypes ((%s 0)) (((mk_%s (mhas_%s (Array %s Bool)) (mval_%s (Array %s %s)) (mcnt_%s Int)))))", mv, mv, mv, k, mv, k, v, mv))
			s.aliases[name] = "Int"
		}
		return name
	case *types.Struct:
		name := "T_anon_" + mangle(tt.String())
		if len(name) > 60 {
			name = name[:60]
		}
		s.ensureStruct(name, tt)
		return name
	case *types.Interface:
		return "Iface"
	case *types.Signature:
		return "Func"
	case *types.Tuple:
		return "Tuple"
	case *types.TypeParam:
		return "Iface"
	}
	return "Iface"
}

// ensureOption declares the monomorphic option type over an element sort and
// returns the mangled element name used in its constructor names
// (Opt_X = none_X | some_X(val_X)).
// theorySorts: sorts declared by theory modules (declare-datatypes / declare-sort in theory/*.smt2). The module
// that declares such a sort also declares its monomorphic option sort (Opt_X), after the sort itself.
var theorySorts = map[string]bool{}

func (s *Sorts) ensureOption(el string) string {
	m := mangle(el)
	if theorySorts[el] {
		return m
	}
	s.addDecl("Opt_"+m, fmt.Sprintf("(declare-datatypes ((Opt_%s 0)) (((none_%s) (some_%s (val_%s %s)))))", m, m, m, m, el))
	return m
}

var optionSortRe = regexp.MustCompile(`\(Option ([A-Za-z0-9_]+)\)`)
var optNameRe = regexp.MustCompile(`\b(?:Opt|none|some|val)_((?:T_|O_)[A-Za-z0-9_]+|Str|Int|Bool)\b`)

// monoOptions rewrites "(Option X)" to the monomorphic sort name.
func monoOptions(text string) string {
	return optionSortRe.ReplaceAllString(text, "Opt_$1")
}

func (s *Sorts) addDecl(name, text string) {
	if _, ok := s.decl[name]; ok {
		return
	}
	s.decl[name] = text
	s.order = append(s.order, name)
}

func (s *Sorts) ensureStruct(name string, st *types.Struct) {
	if _, ok := s.structs[name]; ok || s.inprog[name] {
		return
	}
	s.inprog[name] = true
	info := &StructInfo{Sort: name, Ctor: "mk_" + name}
	var fs []string
	for i := 0; i < st.NumFields(); i++ {
		f := st.Field(i)
		fsort := s.sortOf(f.Type())
		if s.inprog[fsort] && fsort != name {
			fsort = "Iface"
		}
		if fsort == name { // recursive
			fsort = "Iface"
		}
		sel := name + "_" + f.Name()
		info.Fields = append(info.Fields, FieldInfo{Name: f.Name(), Sel: sel, Sort: fsort, GoType: f.Type()})
		fs = append(fs, fmt.Sprintf("(%s %s)", sel, fsort))
	}
	delete(s.inprog, name)
	s.structs[name] = info
	if len(fs) == 0 {
		s.addDecl(name, fmt.Sprintf("(declare-datatypes ((%s 0)) (((%s))))", name, info.Ctor))
	} else {
		s.addDecl(name, fmt.Sprintf("(declare-datatypes ((%s 0)) (((%s %s))))", name, info.Ctor, strings.Join(fs, " ")))
	}
}

// ensureByName makes sure a struct sort referenced textually (theory, world
// declarations) exists, by looking the Go type up in the loaded packages.
func (s *Sorts) ensureByName(name string, lookup func(alias, typ string) types.Type) bool {
	if _, ok := s.structs[name]; ok {
		return true
	}
	if !strings.HasPrefix(name, "T_") {
		return false
	}
	rest := strings.TrimPrefix(name, "T_")
	// alias may contain underscores: try every split
	for i := 0; i < len(rest); i++ {
		if rest[i] != '_' {
			continue
		}
		alias, typ := rest[:i], rest[i+1:]
		if t := lookup(alias, typ); t != nil {
			got := s.sortOf(t)
			return got == name
		}
	}
	return false
}

func (s *Sorts) heapFor(sliceSort string) string {
	el := s.sliceEl[sliceSort]
	h := "HA_" + mangle(el)
	s.heapUsed[h] = "(Array Int (Array Int " + el + "))"
	return h
}

func (s *Sorts) heapForElem(el string) string {
	h := "HA_" + mangle(el)
	s.heapUsed[h] = "(Array Int (Array Int " + el + "))"
	return h
}

// ensureMapSort declares the map sort of the given key/value sorts (used when a contract talks about a map type
// before the code's own map value was seen).
func (s *Sorts) ensureMapSort(k, v string) string {
	name := "MapRef_" + mangle(k) + "_" + mangle(v)
	if _, ok := s.mapKV[name]; !ok {
		s.mapKV[name] = [2]string{k, v}
		mv := "MapVal_" + mangle(k) + "_" + mangle(v)
		s.addDecl(mv, fmt.Sprintf("(declare-datatypes ((%s 0)) (((mk_%s (mhas_%s (Array %s Bool)) (mval_%s (Array %s %s)) (mcnt_%s Int)))))", mv, mv, mv, k, mv, k, v, mv))
		s.aliases[name] = "Int"
	}
	return name
}

func (s *Sorts) mapHeap(mapSort string) (heap, valSort string) {
	kv := s.mapKV[mapSort]
	mv := "MapVal_" + mangle(kv[0]) + "_" + mangle(kv[1])
	h := "HM_" + mangle(kv[0]) + "_" + mangle(kv[1])
	s.heapUsed[h] = "(Array Int " + mv + ")"
	return h, mv
}

func (s *Sorts) ptrHeap(elemSort string) string {
	h := "HP_" + mangle(elemSort)
	s.heapUsed[h] = "(Array Int " + elemSort + ")"
	return h
}

func (s *Sorts) declarations() string {
	var b strings.Builder
	var ops []string
	for o := range s.opaque {
		ops = append(ops, o)
	}
	sort.Strings(ops)
	for _, o := range ops {
		fmt.Fprintf(&b, "(declare-sort %s 0)\n", o)
	}
	var al []string
	for a := range s.aliases {
		al = append(al, a)
	}
	sort.Strings(al)
	for _, a := range al {
		fmt.Fprintf(&b, "(define-sort %s () %s)\n", a, s.aliases[a])
	}
	for _, n := range s.order {
		b.WriteString(s.decl[n])
		b.WriteString("\n")
	}
	return b.String()
}

// zero value of a sort
func (s *Sorts) zero(sortName string, t types.Type) string {
	switch sortName {
	case "Int":
		return "0"
	case "Bool":
		return "false"
	case "Str":
		return strLit("")
	case "Err":
		return "Err_nil"
	}
	if info, ok := s.structs[sortName]; ok {
		if len(info.Fields) == 0 {
			return info.Ctor
		}
		parts := []string{info.Ctor}
		for _, f := range info.Fields {
			parts = append(parts, s.zero(f.Sort, f.GoType))
		}
		return "(" + strings.Join(parts, " ") + ")"
	}
	if _, ok := s.sliceEl[sortName]; ok {
		return fmt.Sprintf("(mk_%s 0 0 0 0)", sortName)
	}
	if _, ok := s.mapKV[sortName]; ok {
		return "0"
	}
	if _, el, ok := arrayParts(sortName); ok {
		return fmt.Sprintf("((as const %s) %s)", sortName, s.zero(el, nil))
	}
	if sortName == "Coins" {
		return "Coins_empty"
	}
	return "" // unknown: caller introduces a fresh constant
}

var strLits = map[string]string{}
var strLitOrder []string
var stringsConcrete = false

func strLit(v string) string {
	if stringsConcrete {
		var b strings.Builder
		b.WriteString("\"")
		for _, c := range []byte(v) {
			switch {
			case c == '"':
				b.WriteString("\"\"")
			case c >= 32 && c < 127 && c != '\\':
				b.WriteByte(c)
			default:
				fmt.Fprintf(&b, "\\u{%x}", c)
			}
		}
		b.WriteString("\"")
		return b.String()
	}
	if n, ok := strLits[v]; ok {
		return n
	}
	n := fmt.Sprintf("strlit_%d_%s", len(strLits), mangle(truncate(v, 16)))
	if v == "" {
		n = "str_empty"
	}
	strLits[v] = n
	strLitOrder = append(strLitOrder, v)
	return n
}

func truncate(s string, n int) string {
	if len(s) > n {
		return s[:n]
	}
	return s
}
