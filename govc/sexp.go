package main

import (
	"fmt"
	"strings"
)

// Minimal s-expression reader used for theory files (signatures of spec
// functions), sort strings and solver models.

type Sexp struct {
	Atom string
	List []*Sexp
	IsL  bool
}

func (s *Sexp) String() string {
	if !s.IsL {
		return s.Atom
	}
	parts := make([]string, len(s.List))
	for i, c := range s.List {
		parts[i] = c.String()
	}
	return "(" + strings.Join(parts, " ") + ")"
}

func parseSexps(src string) ([]*Sexp, error) {
	var out []*Sexp
	i := 0
	for {
		i = skipWs(src, i)
		if i >= len(src) {
			return out, nil
		}
		s, j, err := parseSexp(src, i)
		if err != nil {
			return out, err
		}
		out = append(out, s)
		i = j
	}
}

func skipWs(src string, i int) int {
	for i < len(src) {
		c := src[i]
		if c == ';' {
			for i < len(src) && src[i] != '\n' {
				i++
			}
			continue
		}
		if c == ' ' || c == '\t' || c == '\n' || c == '\r' {
			i++
			continue
		}
		break
	}
	return i
}

func parseSexp(src string, i int) (*Sexp, int, error) {
	i = skipWs(src, i)
	if i >= len(src) {
		return nil, i, fmt.Errorf("unexpected end of input")
	}
	if src[i] == '(' {
		i++
		l := &Sexp{IsL: true}
		for {
			i = skipWs(src, i)
			if i >= len(src) {
				return nil, i, fmt.Errorf("unbalanced parenthesis")
			}
			if src[i] == ')' {
				return l, i + 1, nil
			}
			c, j, err := parseSexp(src, i)
			if err != nil {
				return nil, j, err
			}
			l.List = append(l.List, c)
			i = j
		}
	}
	if src[i] == ')' {
		return nil, i, fmt.Errorf("unexpected )")
	}
	if src[i] == '"' {
		j := i + 1
		for j < len(src) {
			if src[j] == '"' {
				if j+1 < len(src) && src[j+1] == '"' {
					j += 2
					continue
				}
				break
			}
			j++
		}
		return &Sexp{Atom: src[i : j+1]}, j + 1, nil
	}
	if src[i] == '|' {
		j := i + 1
		for j < len(src) && src[j] != '|' {
			j++
		}
		return &Sexp{Atom: src[i : j+1]}, j + 1, nil
	}
	j := i
	for j < len(src) {
		c := src[j]
		if c == ' ' || c == '\t' || c == '\n' || c == '\r' || c == '(' || c == ')' || c == ';' {
			break
		}
		j++
	}
	return &Sexp{Atom: src[i:j]}, j, nil
}

// arrayParts returns (index sort, element sort) if sort is "(Array I E)".
func arrayParts(sort string) (string, string, bool) {
	s, _, err := parseSexp(sort, 0)
	if err != nil || !s.IsL || len(s.List) != 3 || s.List[0].Atom != "Array" {
		return "", "", false
	}
	return s.List[1].String(), s.List[2].String(), true
}

// optionElem returns T if sort is "(Option T)".
func optionElem(sort string) (string, bool) {
	s, _, err := parseSexp(sort, 0)
	if err != nil || !s.IsL || len(s.List) != 2 || s.List[0].Atom != "Option" {
		return "", false
	}
	return s.List[1].String(), true
}

func mangle(s string) string {
	var b strings.Builder
	for _, c := range s {
		switch {
		case c >= 'a' && c <= 'z', c >= 'A' && c <= 'Z', c >= '0' && c <= '9', c == '_':
			b.WriteRune(c)
		case c == ' ':
			b.WriteString("_")
		case c == '(' || c == ')':
		default:
			b.WriteString("_")
		}
	}
	return b.String()
}
