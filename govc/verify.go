package main

import (
	"fmt"
	"go/ast"
	"go/token"
	"go/types"
	"sort"
	"strings"
	"unicode"

	"golang.org/x/tools/go/ssa"
)

type FuncResult struct {
	Key           string
	Contract      *Contract
	Obls          []*Obligation
	Prelude       string // SMT text shared by every obligation of this function
	Err           string // engine failure
	Trusted       []string
	Relies        []string // workspace keys of the repository contracts and lemmas this function's proof used at call sites
	Unmodelled    []string
	Assumes       []string
	Inlined       []string
	Notes         []string
	Blocks        int
	Instrs        int
	Replay        *ReplayInfo
	MapKey        string
	gen           *Gen
	StaticPrelude string
	StrLits       map[string]string
	Body          []string
}

func (w *Workspace) newGen(fn *ssa.Function, ct *Contract) *Gen {
	g := &Gen{w: w, sorts: newSorts(), top: fn, contract: ct, declared: map[string]bool{}, trusted: map[string]bool{}, relied: map[string]bool{}, unmod: map[string]bool{},
		assumes: map[string]bool{}, inlined: map[string]bool{}, globals: map[*ssa.Global]*Cell{}, uses: map[string]bool{}, ufDecl: map[string]string{}, arrElems: map[string]map[string]Val{}, worldSeen: map[string]bool{}, hashState: map[string]*Cell{}}
	g.entry = &State{cells: map[*Cell]Val{}, heaps: map[string]string{}}
	g.concrete = ct != nil && ct.Concrete
	stringsConcrete = g.concrete
	strLits = map[string]string{}
	strLitOrder = nil
	typePkgCache = nil
	g.sorts.opaque["Ctx"] = true
	if ct != nil && fn != nil && len(ct.Params) == len(fn.Params) {
		for i, p := range fn.Params {
			if ct.Params[i] != p.Name() && ct.Params[i] != "_" {
				if g.renames == nil {
					g.renames = map[string]string{}
				}
				g.renames[ct.Params[i]] = p.Name()
				g.notes = append(g.notes, fmt.Sprintf("parameter %d was called %s when the contract was written, now %s", i, ct.Params[i], p.Name()))
			}
		}
	}
	if ct != nil && fn != nil && len(ct.Locals) > 0 {
		cur := orderedLocals(fn)
		m := alignLocals(ct.Locals, cur)
		var parts []string
		for k, v := range m {
			if k != v {
				if g.renames == nil {
					g.renames = map[string]string{}
				}
				g.renames[k] = v
				parts = append(parts, k+" -> "+v)
			}
		}
		if len(parts) > 0 {
			sort.Strings(parts)
			g.notes = append(g.notes, "locals recorded with the contract aligned with the current source order: "+strings.Join(parts, ", "))
		}
	}
	if ct != nil {
		for _, u := range ct.Uses {
			g.useTheory(u)
		}
	}
	return g
}

func (w *Workspace) verifyFunction(key string, ct *Contract) (res *FuncResult) {
	res = &FuncResult{Key: strings.TrimPrefix(ct.PkgPath, modPath+"/") + "." + ct.Key, Contract: ct}
	fn := w.funcs[key]
	if fn == nil && ct.View != "" {
		fn = w.funcs[strings.TrimSuffix(key, "@"+ct.View)]
	}
	if fn == nil && !ct.IsLemma {
		// an unexported helper that was inlined into its callers or folded away: its contract has nothing left to speak
		// about, and whatever it carried is now decided by the contracts of the callers (which must verify with the
		// helper's former body in place). An exported function (handler, keeper API) that disappears is an error.
		base := ct.Key
		if i := strings.LastIndex(base, "."); i >= 0 {
			base = base[i+1:]
		}
		base = strings.TrimSuffix(base, "@"+ct.View)
		if base != "" && unicode.IsLower(rune(base[0])) && !strings.Contains(base, "$") {
			res.Notes = append(res.Notes, fmt.Sprintf("unexported function %s is under contract but no longer exists: contract skipped, its callers carry the obligations", ct.Key))
			return
		}
		res.Err = fmt.Sprintf("function %s is under contract but no longer exists in the package", ct.Key)
		return
	}
	g := w.newGen(fn, ct)
	defer func() {
		if r := recover(); r != nil {
			if ee, ok := r.(engineError); ok {
				res.Err = ee.msg
				return
			}
			panic(r)
		}
	}()
	if ct.IsLemma {
		g.lemma(ct)
	} else {
		g.function(fn, ct)
		res.Blocks = len(fn.Blocks)
		for _, b := range fn.Blocks {
			res.Instrs += len(b.Instrs)
		}
	}
	res.Obls = g.obls
	res.StaticPrelude = g.assembleStatic()
	res.Prelude = res.StaticPrelude
	for _, l := range g.buf {
		res.Body = append(res.Body, monoOptions(l))
	}
	res.Replay = g.replay
	res.MapKey = key
	res.gen = g
	res.StrLits = map[string]string{}
	for k, v := range strLits {
		res.StrLits[k] = v
	}
	res.Trusted = keys(g.trusted)
	res.Relies = keys(g.relied)
	res.Unmodelled = keys(g.unmod)
	res.Assumes = keys(g.assumes)
	res.Inlined = keys(g.inlined)
	res.Notes = g.notes
	return
}

func keys(m map[string]bool) []string {
	var out []string
	for k := range m {
		out = append(out, k)
	}
	sort.Strings(out)
	return out
}

func (g *Gen) lemma(ct *Contract) {
	env := g.newEnv(g.entry, g.entry)
	for _, v := range ct.Vars {
		g.ensureSortNames(v.Sort)
		n := "v_" + v.Name
		g.declare(n, v.Sort)
		env.vars[v.Name] = Val{Sort: v.Sort, Term: n}
	}
	for _, l := range ct.Lets {
		env.lets[l.Name] = l.Expr
	}
	for _, r := range ct.Requires {
		g.assume(env.trBool(r.Expr))
	}
	for _, ap := range ct.Applies {
		g.applyLemma(ct, ap, env)
	}
	for _, e := range ct.Ensures {
		t := env.trBool(e.Expr)
		o := g.oblige("lemma", e.Label, clauseProps(ct, e), nil, "true", t, e.Src, token.NoPos)
		o.Name = strings.TrimPrefix(ct.PkgPath, modPath+"/") + "." + ct.Key + "#lemma:" + e.Label
		o.Func = strings.TrimPrefix(ct.PkgPath, modPath+"/") + "." + ct.Key
		o.Ground = e.Ground
		g.outsideKnown(o, env, nil)
		for _, x := range g.obls {
			if x.Name == o.Name+"!outside_known" {
				x.Ground = e.Ground
				x.Func = o.Func
			}
		}
		// later clauses of the lemma may use this one (assert-then-assume)
		g.assume(t)
	}
	for _, e := range ct.Canary {
		t := env.trBool(e.Expr)
		o := g.oblige("canary", e.Label, clauseProps(ct, e), nil, "true", t, e.Src, token.NoPos)
		o.Name = strings.TrimPrefix(ct.PkgPath, modPath+"/") + "." + ct.Key + "#canary:" + e.Label
		o.Func = strings.TrimPrefix(ct.PkgPath, modPath+"/") + "." + ct.Key
		o.ExpectSat = true
	}
	cv := g.oblige("cover", "premises", ct.Props, nil, "true", "false", "premises of the lemma are satisfiable", token.NoPos)
	cv.Name = strings.TrimPrefix(ct.PkgPath, modPath+"/") + "." + ct.Key + "#cover:premises"
	cv.ExpectSat = true
}

func clauseProps(ct *Contract, c *Clause) []string {
	if len(c.Props) > 0 {
		return c.Props
	}
	return ct.Props
}

func (g *Gen) function(fn *ssa.Function, ct *Contract) {
	st := g.entry
	oblStart := len(g.obls)
	st.heaps["$alloc"] = "0"
	var args []Val
	g.allocBound = "0" // everything reachable from the arguments existed at entry
	for _, p := range fn.Params {
		args = append(args, g.freshVal("p_"+p.Name(), p.Type(), st))
	}
	var free []Val
	for _, fv := range fn.FreeVars {
		free = append(free, g.freshVal("fv_"+fv.Name(), fv.Type(), st))
	}
	g.allocBound = ""
	entrySnapshot := st.clone()
	g.entry = entrySnapshot
	cur := st.clone()
	env := g.newEnv(cur, entrySnapshot)
	bindTop := func(e *Env) {
		for i, p := range fn.Params {
			e.vars[p.Name()] = args[i]
			e.vars[fmt.Sprintf("arg%d", i)] = args[i]
		}
		if fn.Signature.Recv() != nil && len(args) > 0 {
			e.vars["recv"] = args[0]
		}
		for i, fv := range fn.FreeVars {
			v := free[i]
			if v.Ptr != nil && v.Ptr.Cell != nil {
				e.cellVars[fv.Name()] = v.Ptr.Cell
			} else {
				e.vars[fv.Name()] = v
			}
		}
		for _, l := range ct.Lets {
			e.lets[l.Name] = l.Expr
		}
		// ghost variables: arbitrary constants, so every clause that mentions them holds for all their values
		for _, v := range ct.Vars {
			g.ensureSortNames(v.Sort)
			n := "ghost_" + v.Name
			g.declare(n, v.Sort)
			e.vars[v.Name] = Val{Sort: v.Sort, Term: n}
		}
	}
	bindTop(env)
	for _, r := range ct.Requires {
		g.assume(env.trBool(r.Expr))
	}
	results, exit, exitReach := g.runFunc(fn, args, free, cur, "true", 0, ct, true)
	post := g.newEnv(exit, entrySnapshot)
	bindTop(post)
	var resVal Val
	if len(results) == 1 {
		resVal = results[0]
	} else {
		resVal = Val{Tuple: results}
	}
	bindResults(post, fn.Signature, resVal)
	// lemma instances requested by the contract (each lemma is discharged as obligations of its own), stated over the exit state
	for _, ap := range ct.Applies {
		g.applyLemma(ct, ap, post)
	}
	// vacuity guards first: they must not see the postconditions as assumptions
	for _, e := range ct.Canary {
		t := post.trBool(e.Expr)
		o := g.oblige("canary", e.Label, clauseProps(ct, e), fn, exitReach, t, e.Src, fn.Pos())
		o.ExpectSat = true
	}
	cv := g.oblige("cover", "exit_reachable", ct.Props, fn, exitReach, "false", "requires is satisfiable and some return is reachable", fn.Pos())
	cv.ExpectSat = true
	// every loop under contract: some iteration can run to its back edge under the invariants (otherwise the
	// "preserved" obligations of that loop hold vacuously)
	{
		var hs []*ssa.BasicBlock
		for h := range g.topFrame.loopInfos {
			hs = append(hs, h)
		}
		sort.Slice(hs, func(i, j int) bool { return g.topFrame.loopOrd[hs[i]] < g.topFrame.loopOrd[hs[j]] })
		for _, h := range hs {
			li := g.topFrame.loopInfos[h]
			if len(li.backConds) == 0 {
				continue
			}
			lc := g.oblige("cover", fmt.Sprintf("loop%d_body_completes", g.topFrame.loopOrd[h]), ct.Props, fn, or(li.backConds...), "false", "the loop invariants and the loop condition are jointly satisfiable and an iteration can finish", fn.Pos())
			lc.ExpectSat = true
		}
	}
	// hints: intermediate facts at each return site, proved there and then available as lemmas
	for _, h := range ct.Hints {
		applied := 0
		defer func(h *Clause) {
			if applied == 0 {
				// an untagged hint is a proof step, not part of the property: when the local it names is gone (moved into
				// a helper, inlined away) the postconditions are attempted without it rather than refusing the function.
				// A hint tagged with a property carries a clause of that property and must stay expressible.
				if len(h.Props) > 0 {
					g.fail("hint [%s] (a clause of %s) could not be evaluated at any return site (unknown local?)", h.Label, strings.Join(h.Props, ","))
				}
				g.note("hint [%s] not used: a name it mentions exists at no return site", h.Label)
			}
		}(h)
		for k, r := range g.topFrame.rets {
			t, ok := g.hintAt(g.topFrame, r, h, fn, bindTop)
			if !ok {
				if h.All {
					// a hint that must hold at every return site but cannot even be stated here (a name it uses is not defined on this path)
					applied++
					ho := g.oblige("hint", fmt.Sprintf("%s@return%d", h.Label, k), clauseProps(ct, h), fn, r.reach, "false", h.Src+"  (not expressible at this return site)", r.pos)
					ho.Ground = true
				}
				continue
			}
			applied++
			ho := g.oblige("hint", fmt.Sprintf("%s@return%d", h.Label, k), clauseProps(ct, h), fn, r.reach, t, h.Src, r.pos)
			ho.Ground = h.Ground
			g.assume(implies(r.reach, t))
		}
	}
	// postconditions, each proved with the earlier ones available (assert-then-assume)
	for _, e := range ct.Ensures {
		t := post.trBool(e.Expr)
		o := g.oblige("ensures", e.Label, clauseProps(ct, e), fn, exitReach, t, e.Src, fn.Pos())
		o.Ground = e.Ground
		g.outsideKnown(o, post, fn)
		g.assume(implies(exitReach, t))
	}
	// frame: whatever is not listed under modifies is unchanged at exit
	if !ct.ModAll {
		g.frameObligations(fn, ct, env, exit, entrySnapshot, exitReach, args)
	}
	g.replay = g.buildReplay(fn, ct, args)
	g.closeClauseProps(oblStart)
}

// closeClauseProps: hints and postconditions are proved in order and each is then assumed for the later ones, so a
// clause that serves property P rests on every earlier hint and postcondition of the same contract. Those earlier
// clauses are therefore obligations of P as well, whatever their own tags say: a change that falsifies one of them is
// reported under every property whose clauses were proved with its help.
func (g *Gen) closeClauseProps(from int) {
	need := map[string]bool{}
	for i := len(g.obls) - 1; i >= from; i-- {
		o := g.obls[i]
		if o.ExpectSat || (o.Kind != "hint" && o.Kind != "ensures") {
			continue
		}
		have := map[string]bool{}
		for _, p := range o.Props {
			have[p] = true
		}
		var add []string
		for p := range need {
			if !have[p] {
				add = append(add, p)
			}
		}
		if len(add) > 0 {
			sort.Strings(add)
			o.Props = append(append([]string{}, o.Props...), add...)
		}
		for p := range have {
			need[p] = true
		}
	}
}

// hintAt translates a hint clause in the state of one return site, with the
// named locals of the function in scope. ok=false if a local it mentions does
// not exist on that path.
func (g *Gen) hintAt(f *Frame, r retInfo, h *Clause, fn *ssa.Function, bindTop func(*Env)) (term string, ok bool) {
	mark := len(g.buf)
	defer func() {
		if rec := recover(); rec != nil {
			if _, isEE := rec.(engineError); isEE {
				g.buf = g.buf[:mark]
				term, ok = "", false
				return
			}
			panic(rec)
		}
	}()
	env := g.newEnv(r.st, g.entry)
	bindTop(env)
	var resVal Val
	if len(r.results) == 1 {
		resVal = r.results[0]
	} else {
		resVal = Val{Tuple: r.results}
	}
	bindResults(env, fn.Signature, resVal)
	paramSet := map[string]bool{}
	for _, p := range fn.Params {
		paramSet[p.Name()] = true
	}
	// blocks that dominate the return site, outermost first: later definitions of a name override earlier ones
	var doms []*ssa.BasicBlock
	for _, b := range fn.Blocks {
		if r.block == nil || b.Dominates(r.block) {
			doms = append(doms, b)
		}
	}
	sort.Slice(doms, func(i, j int) bool { return doms[i].Dominates(doms[j]) && doms[i] != doms[j] })
	for _, b := range doms {
		for _, ins := range b.Instrs {
			switch x := ins.(type) {
			case *ssa.Alloc:
				if x.Comment != "" {
					if v, ok := f.vals[x]; ok && v.Ptr != nil && v.Ptr.Cell != nil {
						if _, live := r.st.cells[v.Ptr.Cell]; live {
							if _, taken := paramSet[x.Comment]; !taken {
								env.cellVars[x.Comment] = v.Ptr.Cell
							}
						}
					}
				}
			case *ssa.Phi:
				name := strings.TrimPrefix(x.Comment, "#")
				if v, ok := f.vals[x]; ok && name != "" && !paramSet[name] {
					if _, isCell := env.cellVars[name]; !isCell {
						env.vars[name] = v
					}
				}
			case *ssa.DebugRef:
				// single-assignment locals: the source identifier of an SSA value
				if id, ok := x.Expr.(*ast.Ident); ok && !x.IsAddr {
					if v, ok := f.vals[x.X]; ok && !paramSet[id.Name] {
						if _, isCell := env.cellVars[id.Name]; !isCell {
							env.vars[id.Name] = v
						}
					}
				}
			}
		}
	}
	// the function's store iterator (if it has exactly one): the enumeration pseudo-variables are in scope at the return
	if len(g.kvIters) == 1 {
		for en, ki := range g.kvIters {
			if _, live := r.st.cells[ki.cell]; live {
				env.cellVars["iterpos"] = ki.cell
				env.vars["rangekeys"] = Val{Sort: "Enum", Term: en}
				env.vars["rangecount"] = Val{Sort: "Int", Term: ki.cnt}
				env.vars["rangeinv"] = Val{Sort: "Func", Term: ki.inv}
			}
		}
	}
	if ct := g.contract; ct != nil {
		if note := g.bindRenamed(env, ct, []*Clause{h}, paramSet); note != "" {
			g.notes = append(g.notes, fmt.Sprintf("hint %s: %s", h.Label, note))
		}
	}
	if h.Apply != "" {
		g.applyLemma(g.contract, h.Apply, env)
		return "true", true
	}
	return env.trBool(h.Expr), true
}

func (g *Gen) frameObligations(fn *ssa.Function, ct *Contract, env *Env, exit, entry *State, reach string, args []Val) {
	allowedHeaps := map[string]bool{"$alloc": true}
	allowedCells := map[*Cell]bool{}
	mapLocs := map[string][]string{} // heap -> locations that may change
	arrLocs := map[string][]string{}
	for _, m := range ct.Modifies {
		switch {
		case strings.HasPrefix(m, "W."):
			allowedHeaps[m] = true
		case strings.HasPrefix(m, "H."):
			allowedHeaps[strings.TrimPrefix(m, "H.")] = true
		case strings.HasPrefix(m, "map("):
			ex, err := parseSpecExpr(m[4 : len(m)-1])
			if err != nil {
				g.fail("%v", err)
			}
			oe := *env
			oe.inOld = true
			v := oe.tr(ex)
			if v.Ptr != nil {
				v = oe.deref(v, m)
			}
			h, _ := g.sorts.mapHeap(v.Sort)
			mapLocs[h] = append(mapLocs[h], v.Term)
		case strings.HasPrefix(m, "arr("):
			ex, err := parseSpecExpr(m[4 : len(m)-1])
			if err != nil {
				g.fail("%v", err)
			}
			oe := *env
			oe.inOld = true
			v := oe.tr(ex)
			if v.Ptr != nil {
				v = oe.deref(v, m)
			}
			h := g.sorts.heapFor(v.Sort)
			arrLocs[h] = append(arrLocs[h], fmt.Sprintf("(arr_%s %s)", v.Sort, v.Term))
		case strings.HasPrefix(m, "*"):
			ex, err := parseSpecExpr(m[1:])
			if err != nil {
				g.fail("%v", err)
			}
			v := env.tr(ex)
			if v.Ptr != nil && v.Ptr.Cell != nil {
				allowedCells[v.Ptr.Cell] = true
			} else if v.GoT != nil && isPointer(v.GoT) {
				allowedHeaps[g.sorts.ptrHeap(g.sorts.sortOf(v.GoT.Underlying().(*types.Pointer).Elem()))] = true
			}
		}
	}
	var names []string
	for n := range exit.heaps {
		names = append(names, n)
	}
	sort.Strings(names)
	for _, n := range names {
		if allowedHeaps[n] {
			continue
		}
		before, ok := entry.heaps[n]
		if !ok {
			before = g.heapGet(entry, n)
		}
		after := exit.heaps[n]
		if after == before {
			continue
		}
		goal := fmt.Sprintf("(= %s %s)", after, before)
		if locs, ok := mapLocs[n]; ok {
			// only the listed map locations may differ; freshly allocated locations are invisible to the caller
			var ex []string
			for _, l := range locs {
				ex = append(ex, fmt.Sprintf("(= l!q %s)", l))
			}
			goal = fmt.Sprintf("(forall ((l!q Int)) (=> (and (<= l!q 0) (not %s)) (= (select %s l!q) (select %s l!q))))", or(ex...), after, before)
		} else if locs, ok := arrLocs[n]; ok {
			var ex []string
			for _, l := range locs {
				ex = append(ex, fmt.Sprintf("(= l!q %s)", l))
			}
			goal = fmt.Sprintf("(forall ((l!q Int)) (=> (and (<= l!q 0) (not %s)) (= (select %s l!q) (select %s l!q))))", or(ex...), after, before)
		} else if strings.HasPrefix(n, "HA_") || strings.HasPrefix(n, "HM_") || strings.HasPrefix(n, "HP_") {
			// allocation of fresh objects is not a visible effect
			goal = fmt.Sprintf("(forall ((l!q Int)) (=> (<= l!q 0) (= (select %s l!q) (select %s l!q))))", after, before)
		}
		g.oblige("frame", "unmodified:"+n, ct.Props, fn, reach, goal, "not listed under modifies", fn.Pos())
	}
	// pointer parameters
	for i, p := range fn.Params {
		a := args[i]
		if a.Ptr == nil || a.Ptr.Cell == nil || allowedCells[a.Ptr.Cell] {
			continue
		}
		before, ok1 := entry.cells[a.Ptr.Cell]
		after, ok2 := exit.cells[a.Ptr.Cell]
		if !ok1 || !ok2 || sameVal(before, after) || before.Term == "" || after.Term == "" {
			continue
		}
		g.oblige("frame", "unmodified:*"+p.Name(), ct.Props, fn, reach, fmt.Sprintf("(= %s %s)", after.Term, before.Term), "not listed under modifies", fn.Pos())
	}
}

func (g *Gen) assembleStatic() string {
	th := g.theoryText() // registers the string literals used by the theory
	var b strings.Builder
	b.WriteString(basePrelude(g.concrete))
	b.WriteString(g.sorts.declarations())
	if !g.concrete && len(strLitOrder) > 0 {
		var names []string
		for _, v := range strLitOrder {
			n := strLits[v]
			names = append(names, n)
			if n == "str_empty" {
				continue
			}
			fmt.Fprintf(&b, "(declare-const %s Str) ; %q\n", n, v)
			fmt.Fprintf(&b, "(assert (= (str_len %s) %d))\n", n, len(v))
		}
		if len(names) > 1 {
			fmt.Fprintf(&b, "(assert (distinct %s))\n", strings.Join(names, " "))
		}
	}
	for _, l := range g.preTheory {
		b.WriteString(monoOptions(l))
		b.WriteString("\n")
	}
	b.WriteString(monoOptions(th))
	return b.String()
}

// assemble produces the SMT text common to all obligations of the function.
func (g *Gen) assemble() string {
	var b strings.Builder
	b.WriteString(g.assembleStatic())
	for _, l := range g.buf {
		b.WriteString(monoOptions(l))
		b.WriteString("\n")
	}
	return b.String()
}

func basePrelude(concrete bool) string {
	var b strings.Builder
	b.WriteString("(declare-sort Err 0)\n(declare-const Err_nil Err)\n")
	b.WriteString("(declare-sort Iface 0)\n(declare-const Iface_nil Iface)\n(declare-sort Func 0)\n(declare-const Func_nil Func)\n(declare-sort Iter 0)\n")
	b.WriteString("(define-fun tquo ((a Int) (b Int)) Int (ite (>= a 0) (ite (> b 0) (div a b) (- (div a (- b)))) (ite (> b 0) (- (div (- a) b)) (div (- a) (- b)))))\n")
	b.WriteString("(define-fun trem ((a Int) (b Int)) Int (- a (* b (tquo a b))))\n")
	if concrete {
		b.WriteString("(define-sort Str () String)\n")
		b.WriteString("(define-fun str_cat ((a Str) (b Str)) Str (str.++ a b))\n")
		b.WriteString("(define-fun str_len ((a Str)) Int (str.len a))\n")
		b.WriteString("(define-fun str_lt ((a Str) (b Str)) Bool (str.< a b))\n")
		b.WriteString("(define-fun str_le ((a Str) (b Str)) Bool (str.<= a b))\n")
		b.WriteString("(define-fun str_sub ((a Str) (i Int) (n Int)) Str (str.substr a i n))\n")
		b.WriteString("(define-fun str_byte ((a Str) (i Int)) Int (str.to_code (str.at a i)))\n")
		b.WriteString("(define-fun str_empty () Str \"\")\n")
		b.WriteString("(define-fun str_prefixof ((p Str) (s Str)) Bool (str.prefixof p s))\n")
	} else {
		b.WriteString("(declare-sort Str 0)\n")
		b.WriteString("(declare-fun str_cat (Str Str) Str)\n")
		b.WriteString("(declare-fun str_len (Str) Int)\n")
		b.WriteString("(assert (forall ((s Str)) (! (>= (str_len s) 0) :pattern ((str_len s)))))\n")
		b.WriteString("(declare-fun str_lt (Str Str) Bool)\n")
		b.WriteString("(define-fun str_le ((a Str) (b Str)) Bool (or (= a b) (str_lt a b)))\n")
		b.WriteString("(declare-fun str_sub (Str Int Int) Str)\n")
		b.WriteString("(declare-fun str_byte (Str Int) Int)\n")
		b.WriteString("(declare-const str_empty Str)\n(assert (= (str_len str_empty) 0))\n")
		b.WriteString("(assert (forall ((s Str)) (! (=> (= (str_len s) 0) (= s str_empty)) :pattern ((str_len s)))))\n")
		b.WriteString("(assert (forall ((s Str)) (! (= (str_cat str_empty s) s) :pattern ((str_cat str_empty s)))))\n")
		b.WriteString("(assert (forall ((s Str)) (! (= (str_cat s str_empty) s) :pattern ((str_cat s str_empty)))))\n")
		b.WriteString("(declare-fun str_prefixof (Str Str) Bool)\n")
		b.WriteString("(assert (forall ((p Str) (x Str)) (! (str_prefixof p (str_cat p x)) :pattern ((str_cat p x)))))\n")
	}
	return b.String()
}

// outsideKnown: an obligation listed as a known finding with a class
// predicate is additionally proved on the complement of that class, so that a
// different violation of the same obligation is still reported.
func (g *Gen) outsideKnown(o *Obligation, env *Env, fn *ssa.Function) {
	if g.w.known == nil {
		return
	}
	for _, k := range g.w.known.Findings {
		if k.Obligation != o.Name || k.Class == "" {
			continue
		}
		ex, err := parseSpecExpr(k.Class)
		if err != nil {
			g.fail("known_findings.json: class of %s: %v", k.Obligation, err)
		}
		cls := env.trBool(ex)
		n := g.oblige(o.Kind, o.Label+"!outside_known", o.Props, fn, o.Guard, or(cls, o.Goal), "outside the known-finding class: "+k.Class+" || "+o.GoalSrc, token.NoPos)
		n.Name = o.Name + "!outside_known"
	}
}

// applyLemma assumes an instance of another lemma of the same package:
// "name with x = expr, y = expr". The instantiated premises imply the
// instantiated conclusions; the lemma itself is discharged as its own
// obligations for all values of its variables.
func (g *Gen) applyLemma(ct *Contract, spec string, env *Env) {
	parts := strings.SplitN(spec, " with ", 2)
	name := strings.TrimSpace(parts[0])
	other := g.w.contracts[ct.PkgPath+"::"+name]
	if other == nil || !other.IsLemma {
		g.fail("apply: no lemma %q in this package", name)
	}
	for _, u := range other.Uses {
		g.useTheory(u)
	}
	inst := g.newEnv(env.cur, env.old)
	if len(parts) == 2 {
		for _, b := range splitTopLevel(parts[1], ',') {
			kv := strings.SplitN(b, "=", 2)
			if len(kv) != 2 {
				g.fail("apply %s: bad binding %q", name, b)
			}
			ex, err := parseSpecExpr(kv[1])
			if err != nil {
				g.fail("%v", err)
			}
			inst.vars[strings.TrimSpace(kv[0])] = env.tr(ex)
		}
	}
	for _, v := range other.Vars {
		if _, ok := inst.vars[v.Name]; !ok {
			g.fail("apply %s: variable %s is not bound", name, v.Name)
		}
	}
	for _, l := range other.Lets {
		inst.lets[l.Name] = l.Expr
	}
	var pre, post []string
	for _, r := range other.Requires {
		pre = append(pre, inst.trBool(r.Expr))
	}
	for _, e := range other.Ensures {
		post = append(post, inst.trBool(e.Expr))
	}
	g.assume(implies(and(pre...), and(post...)))
	g.relied[ct.PkgPath+"::"+name] = true
	g.assumes["lemma instance used: "+name+" (discharged as its own obligations)"] = true
}
