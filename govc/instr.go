package main

import (
	"fmt"
	"go/ast"
	"go/token"
	"go/types"
	"os"
	"sort"
	"strings"

	"golang.org/x/tools/go/ssa"
)

func (f *Frame) props() []string {
	if f.g.contract != nil {
		return f.g.contract.Props
	}
	return nil
}

func (f *Frame) nopanic(label, guard, goal string, pos token.Pos) {
	g := f.g
	if g.contract != nil && g.contract.NoPanic {
		g.oblige("nopanic", label, f.props(), f.fn, guard, goal, "", pos)
	}
	// execution continues past this point only if the instruction did not panic
	if goal != "false" {
		g.assume(implies(guard, goal))
	} else {
		g.assume(not(guard))
	}
}

func (f *Frame) instr(b *ssa.BasicBlock, ins ssa.Instruction, st *State) {
	g := f.g
	reach := f.reach[b]
	switch x := ins.(type) {
	case *ssa.DebugRef:
	case *ssa.Alloc:
		el := x.Type().(*types.Pointer).Elem()
		if at, ok := el.Underlying().(*types.Array); ok && at.Len() > 0 && isByte(at.Elem()) {
			// a non-empty local byte array (digest): a cell holding a byte string
			name := x.Comment
			if name == "" {
				name = x.Name()
			}
			c := g.newCell(f.prefix+name, "Str", el)
			st.cells[c] = Val{Sort: "Str", Term: g.fresh(f.name(x)+"_zero", "Str"), GoT: el}
			f.vals[x] = Val{Ptr: &Addr{Cell: c}, GoT: x.Type()}
			return
		}
		if at, ok := el.Underlying().(*types.Array); ok {
			es := g.sorts.sortOf(at.Elem())
			h := g.sorts.heapForElem(es)
			loc := g.allocLoc(st)
			cur := g.heapGet(st, h)
			g.heapSet(st, h, fmt.Sprintf("(store %s %s %s)", cur, loc, g.zeroArray(es)))
			f.vals[x] = Val{Ptr: &Addr{Heap: h, Loc: loc, Base: true, N: at.Len()}, GoT: x.Type()}
			return
		}
		name := x.Comment
		if name == "" {
			name = x.Name()
		}
		c := g.newCell(f.prefix+name, g.sorts.sortOf(el), el)
		st.cells[c] = g.zeroVal(el)
		f.vals[x] = Val{Ptr: &Addr{Cell: c}, GoT: x.Type()}
	case *ssa.Store:
		a := f.val(x.Addr, st)
		v := f.val(x.Val, st)
		if a.Ptr != nil && a.Ptr.Heap != "" && !a.Ptr.Base && len(a.Ptr.Path) == 0 && isAtomic(a.Ptr.Idx) {
			if g.arrElems[a.Ptr.Loc] == nil {
				g.arrElems[a.Ptr.Loc] = map[string]Val{}
			}
			g.arrElems[a.Ptr.Loc][a.Ptr.Idx] = v
		}
		if v.Term == "" && v.Ptr != nil && a.Ptr != nil && a.Ptr.Heap == "HA_Iface" {
			// a static pointer stored into a local interface array (variadic arguments): only tracked statically
			return
		}
		f.storeVia(a, v, st, reach, x.Pos())
	case *ssa.UnOp:
		f.unop(x, st, reach)
	case *ssa.BinOp:
		f.binop(x, st, reach)
	case *ssa.FieldAddr:
		base := f.val(x.X, st)
		stT := x.X.Type().Underlying().(*types.Pointer).Elem()
		ss := g.sorts.sortOf(stT)
		if _, ok := g.sorts.structs[ss]; !ok {
			// opaque struct: field address unsupported; give an opaque cell
			ft := x.Type().(*types.Pointer).Elem()
			c := g.newCell(f.prefix+x.Name(), g.sorts.sortOf(ft), ft)
			st.cells[c] = g.freshVal(f.name(x), ft, st)
			f.vals[x] = Val{Ptr: &Addr{Cell: c}, GoT: x.Type()}
			g.note("field address into opaque struct %s treated as unconstrained", ss)
			return
		}
		a := f.asAddr(base, stT, st, reach, x.Pos())
		na := *a
		na.Path = append(append([]pathStep{}, a.Path...), pathStep{ss, x.Field})
		f.vals[x] = Val{Ptr: &na, GoT: x.Type()}
	case *ssa.Field:
		base := f.val(x.X, st)
		ss := g.sorts.sortOf(x.X.Type())
		info, ok := g.sorts.structs[ss]
		if !ok || base.Term == "" {
			f.vals[x] = g.freshVal(f.name(x), x.Type(), st)
			return
		}
		fi := info.Fields[x.Field]
		f.vals[x] = Val{Sort: fi.Sort, Term: g.def(f.name(x), fi.Sort, fmt.Sprintf("(%s %s)", fi.Sel, base.Term)), GoT: x.Type()}
	case *ssa.IndexAddr:
		f.indexAddr(x, st, reach)
	case *ssa.Index:
		base := f.val(x.X, st)
		idx := f.val(x.Index, st)
		switch x.X.Type().Underlying().(type) {
		case *types.Array:
			_, el, _ := arrayParts(base.Sort)
			f.vals[x] = Val{Sort: el, Term: g.def(f.name(x), el, fmt.Sprintf("(select %s %s)", base.Term, idx.Term)), GoT: x.Type()}
		default:
			// string index: byte value
			f.nopanic("index_in_range", reach, fmt.Sprintf("(and (<= 0 %s) (< %s (str_len %s)))", idx.Term, idx.Term, base.Term), x.Pos())
			f.vals[x] = Val{Sort: "Int", Term: g.def(f.name(x), "Int", fmt.Sprintf("(str_byte %s %s)", base.Term, idx.Term)), GoT: x.Type()}
			g.assume(fmt.Sprintf("(and (<= 0 %s) (<= %s 255))", f.vals[x].Term, f.vals[x].Term))
		}
	case *ssa.Slice:
		f.sliceOp(x, st, reach)
	case *ssa.MakeSlice:
		s := g.sorts.sortOf(x.Type())
		h := g.sorts.heapFor(s)
		ln := f.val(x.Len, st)
		cp := f.val(x.Cap, st)
		f.nopanic("makeslice_len", reach, fmt.Sprintf("(and (<= 0 %s) (<= %s %s))", ln.Term, ln.Term, cp.Term), x.Pos())
		if es := elemSize(x.Type()); es > 0 {
			// runtime.makeslice panics ("cap out of range") when cap*elemsize exceeds the largest allocation (2^48 bytes on
			// amd64). The obligation asks for cap <= 2^48 elements: exact for one-byte elements, a necessary condition for larger
			// ones -- so that a slice sized by the length of another collection (which fits the address space, A-MEM) is never
			// reported, whatever the two element sizes are, while a capacity taken from an unbounded integer is.
			f.nopanic("makeslice_cap_allocatable", reach, fmt.Sprintf("(<= %s %s)", cp.Term, maxAllocBytes), x.Pos())
		}
		loc := g.allocLoc(st)
		el := g.sorts.sliceEl[s]
		g.heapSet(st, h, fmt.Sprintf("(store %s %s %s)", g.heapGet(st, h), loc, g.zeroArray(el)))
		f.vals[x] = Val{Sort: s, Term: g.def(f.name(x), s, fmt.Sprintf("(mk_%s %s 0 %s %s)", s, loc, ln.Term, cp.Term)), GoT: x.Type()}
	case *ssa.MakeMap:
		ms := g.sorts.sortOf(x.Type())
		h, mv := g.sorts.mapHeap(ms)
		kv := g.sorts.mapKV[ms]
		loc := g.allocLoc(st)
		z := g.sorts.zero(kv[1], nil)
		if z == "" {
			z = g.fresh("zero", kv[1])
		}
		empty := fmt.Sprintf("(mk_%s ((as const (Array %s Bool)) false) ((as const (Array %s %s)) %s) 0)", mv, kv[0], kv[0], kv[1], z)
		g.heapSet(st, h, fmt.Sprintf("(store %s %s %s)", g.heapGet(st, h), loc, empty))
		if g.freshMaps == nil {
			g.freshMaps = map[string]bool{}
		}
		g.freshMaps[loc] = true
		f.vals[x] = Val{Sort: ms, Term: loc, GoT: x.Type()}
	case *ssa.Lookup:
		f.lookup(x, st, reach)
	case *ssa.MapUpdate:
		m := f.val(x.Map, st)
		k := f.val(x.Key, st)
		v := f.val(x.Value, st)
		h, mv := g.sorts.mapHeap(m.Sort)
		delete(g.freshMaps, m.Term)
		f.nopanic("map_not_nil", reach, fmt.Sprintf("(not (= %s 0))", m.Term), x.Pos())
		cur := fmt.Sprintf("(select %s %s)", g.heapGet(st, h), m.Term)
		nv := fmt.Sprintf("(mk_%s (store (mhas_%s %s) %s true) (store (mval_%s %s) %s %s) (ite (select (mhas_%s %s) %s) (mcnt_%s %s) (+ (mcnt_%s %s) 1)))",
			mv, mv, cur, k.Term, mv, cur, k.Term, v.Term, mv, cur, k.Term, mv, cur, mv, cur)
		g.heapSet(st, h, fmt.Sprintf("(store %s %s %s)", g.heapGet(st, h), m.Term, nv))
	case *ssa.Convert:
		f.convert(x, st, reach)
	case *ssa.ChangeType:
		v := f.val(x.X, st)
		v.GoT = x.Type()
		ns := g.sorts.sortOf(x.Type())
		if v.Term != "" && v.Sort != ns && v.Ptr == nil {
			// e.g. []Coin <-> Coins
			f.vals[x] = f.changeSort(v, ns, x, st)
			return
		}
		f.vals[x] = v
	case *ssa.ChangeInterface:
		v := f.val(x.X, st)
		ts := g.sorts.sortOf(x.Type())
		if v.Term != "" && v.Sort != ts && v.Ptr == nil {
			// e.g. error -> interface{}: box the value
			if ts == "Err" {
				n := g.fresh(f.name(x), "Err")
				f.vals[x] = Val{Sort: "Err", Term: n, GoT: x.Type()}
				return
			}
			f.vals[x] = Val{Sort: ts, Term: g.fresh(f.name(x), ts), Tuple: []Val{v}, GoT: x.Type()}
			return
		}
		v.GoT = x.Type()
		f.vals[x] = v
	case *ssa.MakeInterface:
		v := f.val(x.X, st)
		ts := g.sorts.sortOf(x.Type())
		if ts == "Err" {
			n := g.fresh(f.name(x), "Err")
			g.assume(fmt.Sprintf("(not (= %s Err_nil))", n))
			f.vals[x] = Val{Sort: "Err", Term: n, GoT: x.Type()}
			return
		}
		out := Val{Sort: "Iface", Term: g.fresh(f.name(x), "Iface"), Ptr: v.Ptr, GoT: x.Type()}
		if n, ok := x.X.Type().(*types.Named); ok && n.Obj().Pkg() != nil && n.Obj().Pkg().Path()+"."+n.Obj().Name() == "github.com/cosmos/cosmos-sdk/store/prefix.Store" && v.Term != "" {
			// a prefix store used through the KVStore interface keeps its prefix
			g.useTheory("kv")
			g.assume(fmt.Sprintf("(= (store_prefix %s) %s)", out.Term, v.Term))
		}
		if v.Ptr == nil && v.Term != "" {
			// remember the boxed value
			out.Tuple = []Val{v}
		}
		f.vals[x] = out
	case *ssa.TypeAssert:
		v := f.val(x.X, st)
		if len(v.Tuple) == 1 && types.Identical(v.Tuple[0].GoT, x.AssertedType) {
			if x.CommaOk {
				f.vals[x] = Val{Tuple: []Val{v.Tuple[0], {Sort: "Bool", Term: "true"}}}
			} else {
				f.vals[x] = v.Tuple[0]
			}
			return
		}
		if v.Ptr != nil && types.Identical(v.GoT, x.AssertedType) {
			f.vals[x] = v
			return
		}
		if !x.CommaOk {
			f.nopanic("type_assert", reach, "false", x.Pos())
		}
		g.note("type assertion to %s is not modelled (result unconstrained)", x.AssertedType.String())
		if x.CommaOk {
			f.vals[x] = Val{Tuple: []Val{g.freshVal(f.name(x), x.AssertedType, st), g.freshVal(f.name(x)+"_ok", types.Typ[types.Bool], st)}}
		} else {
			f.vals[x] = g.freshVal(f.name(x), x.AssertedType, st)
		}
	case *ssa.Extract:
		t := f.val(x.Tuple, st)
		if x.Index >= len(t.Tuple) {
			g.fail("%s: extract #%d of a %d-tuple", f.fn.Name(), x.Index, len(t.Tuple))
		}
		f.vals[x] = t.Tuple[x.Index]
	case *ssa.MakeClosure:
		fn := x.Fn.(*ssa.Function)
		var bs []Val
		for _, bnd := range x.Bindings {
			bs = append(bs, f.val(bnd, st))
		}
		f.vals[x] = Val{Sort: "Func", Term: "clo_" + mangle(fn.Name()), Clo: &Closure{Fn: fn, Bindings: bs}, GoT: x.Type()}
	case *ssa.Call:
		res := f.call(x.Common(), x, st, reach, x.Pos())
		f.vals[x] = res
	case *ssa.Defer:
		// deferred calls of effect-free functions (iterator.Close, telemetry) are skipped
		if !f.effectFreeCall(x.Common()) {
			g.fail("%s: defer of %s is not supported", f.fn.Name(), x.Common().String())
		}
	case *ssa.RunDefers:
	case *ssa.Range:
		f.rangeInit(x, st, reach)
	case *ssa.Next:
		f.rangeNext(x, st, reach)
	case *ssa.Return:
		var rs []Val
		for _, r := range x.Results {
			rs = append(rs, f.val(r, st))
		}
		f.rets = append(f.rets, retInfo{reach: reach, results: rs, st: st.clone(), pos: x.Pos(), block: b})
	case *ssa.If:
		c := f.val(x.Cond, st)
		f.setEdge(b, b.Succs[0], and(reach, c.Term), st)
		f.setEdge(b, b.Succs[1], and(reach, not(c.Term)), st)
	case *ssa.Jump:
		f.setEdge(b, b.Succs[0], reach, st)
	case *ssa.Panic:
		f.nopanic("explicit_panic", reach, "false", x.Pos())
	case *ssa.Go, *ssa.Select, *ssa.Send, *ssa.MakeChan:
		g.fail("%s: concurrency construct %T is outside the verified subset", f.fn.Name(), ins)
	default:
		g.fail("%s: unsupported instruction %T (%s)", f.fn.Name(), ins, ins.String())
	}
}

func (g *Gen) note(format string, args ...interface{}) {
	s := fmt.Sprintf(format, args...)
	for _, n := range g.notes {
		if n == s {
			return
		}
	}
	g.notes = append(g.notes, s)
}

func (f *Frame) setEdge(from, to *ssa.BasicBlock, cond string, st *State) {
	g := f.g
	if isBackEdge(from, to) {
		f.loopBackEdge(from, to, cond, st)
		return
	}
	k := [2]int{from.Index, to.Index}
	if prev, ok := f.edge[k]; ok {
		cond = or(prev, cond)
	}
	f.edge[k] = g.defBool(fmt.Sprintf("%sedge_%d_%d", f.prefix, from.Index, to.Index), cond)
}

// asAddr turns a pointer value into an address (static or heap based).
func (f *Frame) asAddr(p Val, elem types.Type, st *State, reach string, pos token.Pos) *Addr {
	g := f.g
	if p.Ptr != nil {
		if p.NilFlag != "" {
			f.nopanic("nil_deref", reach, not(p.NilFlag), pos)
		}
		return p.Ptr
	}
	if p.Term == "" {
		g.fail("%s: dereference of a non-pointer value", f.fn.Name())
	}
	// term-level pointer: location in the pointer heap of its element sort
	es := g.sorts.sortOf(elem)
	h := g.sorts.ptrHeap(es)
	f.nopanic("nil_deref", reach, fmt.Sprintf("(not (= %s 0))", p.Term), pos)
	return &Addr{PHeap: h, PLoc: p.Term}
}

func (f *Frame) storeVia(a Val, v Val, st *State, reach string, pos token.Pos) {
	g := f.g
	var elem types.Type
	if a.GoT != nil {
		if pt, ok := a.GoT.Underlying().(*types.Pointer); ok {
			elem = pt.Elem()
		}
	}
	addr := f.asAddr(a, elem, st, reach, pos)
	if v.Term == "" && v.Ptr != nil && (addr.Heap != "" || addr.PHeap != "" || len(addr.Path) > 0) {
		// storing a static pointer into the heap: materialise it in the pointer heap
		v = f.materialise(v, st)
	}
	g.store(st, addr, v)
}

// materialise moves the cell behind a static pointer into the pointer heap so
// that the pointer can be stored as a term (location).
func (f *Frame) materialise(v Val, st *State) Val {
	g := f.g
	a := v.Ptr
	if a.Cell == nil || len(a.Path) != 0 {
		g.fail("%s: cannot store the address of a field or element in the heap", f.fn.Name())
	}
	if e, ok := g.escaped[a.Cell]; ok {
		return Val{Sort: "Int", Term: e[1], GoT: v.GoT}
	}
	cur := g.load(st, &Addr{Cell: a.Cell}, a.Cell.goT)
	if cur.Term == "" {
		g.fail("%s: pointer to local %s (holding a pointer) escapes into the heap (unsupported)", f.fn.Name(), a.Cell.name)
	}
	h := g.sorts.ptrHeap(cur.Sort)
	loc := g.allocLoc(st)
	g.heapSet(st, h, fmt.Sprintf("(store %s %s %s)", g.heapGet(st, h), loc, cur.Term))
	if g.escaped == nil {
		g.escaped = map[*Cell][2]string{}
	}
	g.escaped[a.Cell] = [2]string{h, loc}
	return Val{Sort: "Int", Term: loc, GoT: v.GoT}
}

func (f *Frame) unop(x *ssa.UnOp, st *State, reach string) {
	g := f.g
	v := f.val(x.X, st)
	switch x.Op {
	case token.MUL:
		elem := x.Type()
		addr := f.asAddr(v, elem, st, reach, x.Pos())
		lv := g.load(st, addr, elem)
		if lv.Term != "" && lv.Ptr == nil && !isAtomic(lv.Term) {
			lv.Term = g.def(f.name(x), lv.Sort, lv.Term)
		}
		lv.GoT = elem
		f.vals[x] = lv
	case token.NOT:
		f.vals[x] = Val{Sort: "Bool", Term: not(v.Term), GoT: x.Type()}
	case token.SUB:
		f.vals[x] = Val{Sort: "Int", Term: g.def(f.name(x), "Int", fmt.Sprintf("(- %s)", v.Term)), GoT: x.Type()}
	default:
		g.note("unary operator %s is not modelled (result unconstrained)", x.Op)
		f.vals[x] = g.freshVal(f.name(x), x.Type(), st)
	}
}

func (f *Frame) binop(x *ssa.BinOp, st *State, reach string) {
	g := f.g
	a := f.val(x.X, st)
	b := f.val(x.Y, st)
	at := a.Term
	bt := b.Term
	if at == "" || bt == "" {
		// pointer comparison
		if x.Op == token.EQL || x.Op == token.NEQ {
			res := "false"
			if a.Ptr != nil && b.Ptr != nil {
				if sameAddr(a.Ptr, b.Ptr) {
					res = "true"
				}
			} else if a.Ptr != nil && bt == "0" || b.Ptr != nil && at == "0" {
				res = "false" // a static pointer is never nil, unless it carries a nil flag
				if a.Ptr != nil && a.NilFlag != "" {
					res = a.NilFlag
				}
				if b.Ptr != nil && b.NilFlag != "" {
					res = b.NilFlag
				}
			} else {
				g.fail("%s: comparison of a static pointer with a term", f.fn.Name())
			}
			if x.Op == token.NEQ {
				res = not(res)
			}
			f.vals[x] = Val{Sort: "Bool", Term: res, GoT: x.Type()}
			return
		}
		g.fail("%s: binary operator on pointers", f.fn.Name())
	}
	isStr := a.Sort == "Str"
	var term, srt string
	srt = "Int"
	switch x.Op {
	case token.ADD:
		if isStr {
			srt = "Str"
			term = fmt.Sprintf("(str_cat %s %s)", at, bt)
		} else {
			term = fmt.Sprintf("(+ %s %s)", at, bt)
		}
	case token.SUB:
		term = fmt.Sprintf("(- %s %s)", at, bt)
	case token.MUL:
		term = fmt.Sprintf("(* %s %s)", at, bt)
	case token.QUO:
		f.nopanic("div_by_zero", reach, fmt.Sprintf("(not (= %s 0))", bt), x.Pos())
		term = fmt.Sprintf("(tquo %s %s)", at, bt)
	case token.REM:
		f.nopanic("div_by_zero", reach, fmt.Sprintf("(not (= %s 0))", bt), x.Pos())
		term = fmt.Sprintf("(trem %s %s)", at, bt)
	case token.EQL:
		srt = "Bool"
		term = fmt.Sprintf("(= %s %s)", at, bt)
	case token.NEQ:
		srt = "Bool"
		term = fmt.Sprintf("(not (= %s %s))", at, bt)
	case token.LSS, token.LEQ, token.GTR, token.GEQ:
		srt = "Bool"
		op := map[token.Token]string{token.LSS: "<", token.LEQ: "<=", token.GTR: ">", token.GEQ: ">="}[x.Op]
		if isStr {
			sop := map[token.Token]string{token.LSS: "str_lt", token.LEQ: "str_le", token.GTR: "str_lt", token.GEQ: "str_le"}[x.Op]
			if x.Op == token.GTR || x.Op == token.GEQ {
				at, bt = bt, at
			}
			term = fmt.Sprintf("(%s %s %s)", sop, at, bt)
		} else {
			term = fmt.Sprintf("(%s %s %s)", op, at, bt)
		}
	case token.LAND, token.AND:
		if a.Sort == "Bool" {
			srt = "Bool"
			term = and(at, bt)
		}
	case token.LOR, token.OR:
		if a.Sort == "Bool" {
			srt = "Bool"
			term = or(at, bt)
		}
	}
	if term == "" {
		g.note("binary operator %s on %s is not modelled (result unconstrained)", x.Op, a.Sort)
		f.vals[x] = g.freshVal(f.name(x), x.Type(), st)
		return
	}
	if srt == "Int" && (x.Op == token.ADD || x.Op == token.SUB || x.Op == token.MUL) {
		f.overflow(x, term, reach)
	}
	f.vals[x] = Val{Sort: srt, Term: g.def(f.name(x), srt, term), GoT: x.Type()}
}

func (f *Frame) overflow(x ssa.Value, term, reach string) {
	g := f.g
	sweep := os.Getenv("VERIF_OVERFLOW_SWEEP") == "1" // exploration aid (not used by any registered command): A-ARITH switched off everywhere
	// machine-range obligations are the default for every function under contract; `arith mathematical: <why>` opts a
	// function out (recorded as an A-ARITH assumption in the evidence), `overflow only a b` restricts them to named results
	if g.contract == nil || (g.contract.MathArith && !sweep) {
		return
	}
	if b, ok := x.(*ssa.BinOp); ok && b.Op == token.ADD {
		// the hidden index of a range loop over a slice or string (k = phi[-1, k+1]; k+1 < len): not arithmetic of the
		// program, and within the length by construction
		if ph, ok := b.X.(*ssa.Phi); ok && ph.Comment == "rangeindex" {
			return
		}
	}
	if only := g.contract.OverflowOnly; len(only) > 0 && !sweep {
		// restricted to the results assigned to the named locals or struct fields
		hit := false
		if refs := x.Referrers(); refs != nil {
			for _, r := range *refs {
				name := ""
				switch u := r.(type) {
				case *ssa.Store:
					if fa, ok := u.Addr.(*ssa.FieldAddr); ok && u.Val == x {
						if st, ok := fa.X.Type().Underlying().(*types.Pointer).Elem().Underlying().(*types.Struct); ok {
							name = st.Field(fa.Field).Name()
						}
					}
					if al, ok := u.Addr.(*ssa.Alloc); ok && u.Val == x {
						name = al.Comment
					}
				case *ssa.DebugRef:
					if id, ok := u.Expr.(*ast.Ident); ok && !u.IsAddr {
						name = id.Name
					}
				}
				for _, o := range only {
					if name == o {
						hit = true
					}
				}
			}
		}
		if !hit {
			return
		}
	}
	bt, ok := x.Type().Underlying().(*types.Basic)
	if !ok {
		return
	}
	lo, hi, ok := intRange(bt)
	if !ok {
		return
	}
	var pos token.Pos
	if p, ok := x.(interface{ Pos() token.Pos }); ok {
		pos = p.Pos()
	}
	g.oblige("overflow", "arith_in_range", f.props(), f.fn, reach, fmt.Sprintf("(and (<= %s %s) (<= %s %s))", lo, term, term, hi), "", pos)
}

func (f *Frame) convert(x *ssa.Convert, st *State, reach string) {
	g := f.g
	v := f.val(x.X, st)
	from := g.sorts.sortOf(x.X.Type())
	to := g.sorts.sortOf(x.Type())
	switch {
	case from == to && from == "Int":
		// integer conversion: identity on the mathematical value; narrowing is an overflow obligation
		if bt, ok := x.Type().Underlying().(*types.Basic); ok {
			if ft, ok2 := x.X.Type().Underlying().(*types.Basic); ok2 {
				lo, hi, _ := intRange(bt)
				flo, fhi, _ := intRange(ft)
				if lo != flo || hi != fhi {
					f.overflow(x, v.Term, reach)
				}
			}
		}
		f.vals[x] = Val{Sort: "Int", Term: v.Term, GoT: x.Type()}
	case from == to:
		v.GoT = x.Type()
		f.vals[x] = v
	default:
		g.note("conversion %s -> %s is not modelled (uninterpreted function)", x.X.Type(), x.Type())
		fn := g.uf("conv_"+mangle(x.X.Type().String())+"_to_"+mangle(x.Type().String()), []string{from}, to)
		f.vals[x] = Val{Sort: to, Term: g.def(f.name(x), to, fmt.Sprintf("(%s %s)", fn, v.Term)), GoT: x.Type()}
	}
}

// uf declares (once) an uninterpreted function.
func (g *Gen) uf(name string, args []string, res string) string {
	name = mangle(name)
	sig := fmt.Sprintf("(declare-fun %s (%s) %s)", name, strings.Join(args, " "), res)
	if prev, ok := g.ufDecl[name]; ok {
		if prev != sig {
			// same name, different signature: disambiguate
			return g.uf(name+"_"+mangle(strings.Join(args, "_")+"_"+res), args, res)
		}
		return name
	}
	g.ufDecl[name] = sig
	g.emit(sig)
	return name
}

func (f *Frame) changeSort(v Val, ns string, x ssa.Value, st *State) Val {
	g := f.g
	if ns == "Coins" && v.Elems != nil {
		// composite literal sdk.Coins{c1, ...}: not sanitised
		g.useTheory("coins")
		cur := "Coins_empty"
		for _, e := range v.Elems {
			cur = fmt.Sprintf("(Coins_lit_add %s %s)", cur, e.Term)
		}
		return Val{Sort: "Coins", Term: g.def(f.name(x), "Coins", cur), GoT: x.Type()}
	}
	// conversions between []Coin and Coins, and similar named slice types
	fn := g.uf("cast_"+mangle(v.Sort)+"_to_"+mangle(ns), []string{v.Sort}, ns)
	g.note("change of representation %s -> %s is an uninterpreted function", v.Sort, ns)
	out := Val{Sort: ns, Term: g.def(f.name(x), ns, fmt.Sprintf("(%s %s)", fn, v.Term)), GoT: x.Type()}
	if v.Sort == "Coins" {
		out.CoinsOf = v.Term // coins... handed to a variadic parameter: the callee model can use the value itself
	}
	return out
}

func (f *Frame) indexAddr(x *ssa.IndexAddr, st *State, reach string) {
	g := f.g
	base := f.val(x.X, st)
	idx := f.val(x.Index, st)
	switch t := x.X.Type().Underlying().(type) {
	case *types.Pointer: // pointer to array
		if base.Ptr == nil || !base.Ptr.Base {
			g.fail("%s: index through a pointer to array that is not a local array", f.fn.Name())
		}
		n := base.Ptr.N
		f.nopanic("index_in_range", reach, fmt.Sprintf("(and (<= 0 %s) (< %s %d))", idx.Term, idx.Term, n), x.Pos())
		f.vals[x] = Val{Ptr: &Addr{Heap: base.Ptr.Heap, Loc: base.Ptr.Loc, Idx: idx.Term}, GoT: x.Type()}
	case *types.Slice:
		s := base.Sort
		if _, ok := g.sorts.sliceEl[s]; !ok {
			// abstract collection sorts (Coins): element addresses are read-only views
			if s == "Coins" {
				c := g.newCell(f.prefix+x.Name(), "T_sdk_Coin", x.Type().(*types.Pointer).Elem())
				f.nopanic("index_in_range", reach, fmt.Sprintf("(and (<= 0 %s) (< %s (Coins_len %s)))", idx.Term, idx.Term, base.Term), x.Pos())
				st.cells[c] = Val{Sort: "T_sdk_Coin", Term: fmt.Sprintf("(Coins_at %s %s)", base.Term, idx.Term), GoT: x.Type().(*types.Pointer).Elem()}
				f.vals[x] = Val{Ptr: &Addr{Cell: c}, GoT: x.Type()}
				return
			}
			g.fail("%s: index into value of sort %s (%s)", f.fn.Name(), s, t)
		}
		h := g.sorts.heapFor(s)
		f.nopanic("index_in_range", reach, fmt.Sprintf("(and (<= 0 %s) (< %s (len_%s %s)))", idx.Term, idx.Term, s, base.Term), x.Pos())
		f.vals[x] = Val{Ptr: &Addr{Heap: h, Loc: fmt.Sprintf("(arr_%s %s)", s, base.Term), Idx: g.def(f.name(x)+"_i", "Int", fmt.Sprintf("(+ (off_%s %s) %s)", s, base.Term, idx.Term)),
			SliceSort: s, SliceTerm: base.Term, RawIdx: idx.Term}, GoT: x.Type()}
	default:
		g.fail("%s: IndexAddr on %s", f.fn.Name(), x.X.Type())
	}
}

func (f *Frame) sliceOp(x *ssa.Slice, st *State, reach string) {
	g := f.g
	base := f.val(x.X, st)
	get := func(v ssa.Value) string {
		if v == nil {
			return ""
		}
		return f.val(v, st).Term
	}
	lo, hi, mx := get(x.Low), get(x.High), get(x.Max)
	if lo == "" {
		lo = "0"
	}
	switch x.X.Type().Underlying().(type) {
	case *types.Pointer: // *[N]T
		if base.Ptr != nil && base.Ptr.Cell != nil && base.Ptr.Cell.sort == "Str" && x.Low == nil && x.High == nil {
			// a local [N]byte held as a byte string (digest values): sum[:] is the string itself
			v := g.load(st, base.Ptr, base.Ptr.Cell.goT)
			f.vals[x] = Val{Sort: "Str", Term: v.Term, GoT: x.Type()}
			return
		}
		if base.Ptr == nil || !base.Ptr.Base {
			g.fail("%s: slicing a pointer to a non-local array", f.fn.Name())
		}
		n := fmt.Sprint(base.Ptr.N)
		if hi == "" {
			hi = n
		}
		s := g.sorts.sortOf(x.Type())
		if s == "Coins" {
			// composite literal sdk.Coins{...}
			at := x.X.Type().Underlying().(*types.Pointer).Elem().Underlying().(*types.Array)
			tmp := Val{Sort: g.sorts.sortOf(types.NewSlice(at.Elem())), Term: "", GoT: x.Type()}
			em := g.arrElems[base.Ptr.Loc]
			for i := int64(0); i < base.Ptr.N; i++ {
				v, ok := em[fmt.Sprint(i)]
				if !ok {
					g.fail("%s: sdk.Coins literal with unknown elements", f.fn.Name())
				}
				tmp.Elems = append(tmp.Elems, v)
			}
			if tmp.Elems == nil {
				tmp.Elems = []Val{}
			}
			f.vals[x] = f.changeSort(tmp, "Coins", x, st)
			return
		}
		if s == "Str" {
			// a byte-array literal sliced into []byte: byte strings are values
			if base.Ptr.N == 0 {
				f.vals[x] = Val{Sort: "Str", Term: strLit(""), GoT: x.Type()}
				return
			}
			g.fail("%s: slicing a non-empty byte array literal is not supported", f.fn.Name())
		}
		f.nopanic("slice_in_range", reach, fmt.Sprintf("(and (<= 0 %s) (<= %s %s) (<= %s %s))", lo, lo, hi, hi, n), x.Pos())
		sv := Val{Sort: s, Term: g.def(f.name(x), s, fmt.Sprintf("(mk_%s %s %s (- %s %s) (- %s %s))", s, base.Ptr.Loc, lo, hi, lo, n, lo)), GoT: x.Type()}
		if lo == "0" && hi == n {
			if em := g.arrElems[base.Ptr.Loc]; em != nil || base.Ptr.N == 0 {
				all := true
				var es []Val
				for i := int64(0); i < base.Ptr.N; i++ {
					v, ok := em[fmt.Sprint(i)]
					if !ok {
						all = false
						break
					}
					es = append(es, v)
				}
				if all {
					sv.Elems = es
					if sv.Elems == nil {
						sv.Elems = []Val{}
					}
				}
			}
		}
		f.vals[x] = sv
	case *types.Basic: // string
		if hi == "" {
			hi = fmt.Sprintf("(str_len %s)", base.Term)
		}
		f.nopanic("slice_in_range", reach, fmt.Sprintf("(and (<= 0 %s) (<= %s %s) (<= %s (str_len %s)))", lo, lo, hi, hi, base.Term), x.Pos())
		f.vals[x] = Val{Sort: "Str", Term: g.def(f.name(x), "Str", fmt.Sprintf("(str_sub %s %s (- %s %s))", base.Term, lo, hi, lo)), GoT: x.Type()}
	case *types.Slice:
		s := base.Sort
		if s == "Str" { // []byte
			if hi == "" {
				hi = fmt.Sprintf("(str_len %s)", base.Term)
			}
			f.nopanic("slice_in_range", reach, fmt.Sprintf("(and (<= 0 %s) (<= %s %s) (<= %s (str_len %s)))", lo, lo, hi, hi, base.Term), x.Pos())
			f.vals[x] = Val{Sort: "Str", Term: g.def(f.name(x), "Str", fmt.Sprintf("(str_sub %s %s (- %s %s))", base.Term, lo, hi, lo)), GoT: x.Type()}
			return
		}
		if _, ok := g.sorts.sliceEl[s]; !ok {
			g.fail("%s: slicing a value of sort %s", f.fn.Name(), s)
		}
		if hi == "" {
			hi = fmt.Sprintf("(len_%s %s)", s, base.Term)
		}
		capT := fmt.Sprintf("(cap_%s %s)", s, base.Term)
		newCap := fmt.Sprintf("(- %s %s)", capT, lo)
		if mx != "" {
			newCap = fmt.Sprintf("(- %s %s)", mx, lo)
			f.nopanic("slice_in_range", reach, fmt.Sprintf("(and (<= 0 %s) (<= %s %s) (<= %s %s) (<= %s %s))", lo, lo, hi, hi, mx, mx, capT), x.Pos())
		} else {
			f.nopanic("slice_in_range", reach, fmt.Sprintf("(and (<= 0 %s) (<= %s %s) (<= %s %s))", lo, lo, hi, hi, capT), x.Pos())
		}
		f.vals[x] = Val{Sort: s, Term: g.def(f.name(x), s, fmt.Sprintf("(mk_%s (arr_%s %s) (+ (off_%s %s) %s) (- %s %s) %s)", s, s, base.Term, s, base.Term, lo, hi, lo, newCap)), GoT: x.Type()}
	default:
		g.fail("%s: Slice on %s", f.fn.Name(), x.X.Type())
	}
}

func (f *Frame) lookup(x *ssa.Lookup, st *State, reach string) {
	g := f.g
	m := f.val(x.X, st)
	k := f.val(x.Index, st)
	if _, ok := x.X.Type().Underlying().(*types.Map); !ok {
		// string[i]
		f.nopanic("index_in_range", reach, fmt.Sprintf("(and (<= 0 %s) (< %s (str_len %s)))", k.Term, k.Term, m.Term), x.Pos())
		f.vals[x] = Val{Sort: "Int", Term: g.def(f.name(x), "Int", fmt.Sprintf("(str_byte %s %s)", m.Term, k.Term)), GoT: x.Type()}
		return
	}
	h, mv := g.sorts.mapHeap(m.Sort)
	kv := g.sorts.mapKV[m.Sort]
	cur := fmt.Sprintf("(select %s %s)", g.heapGet(st, h), m.Term)
	has := fmt.Sprintf("(and (not (= %s 0)) (select (mhas_%s %s) %s))", m.Term, mv, cur, k.Term)
	z := g.sorts.zero(kv[1], nil)
	if z == "" {
		z = g.fresh("zero", kv[1])
	}
	val := fmt.Sprintf("(ite %s (select (mval_%s %s) %s) %s)", has, mv, cur, k.Term, z)
	var et types.Type
	if mt, ok := x.X.Type().Underlying().(*types.Map); ok {
		et = mt.Elem()
	}
	v := Val{Sort: kv[1], Term: g.def(f.name(x), kv[1], val), GoT: et}
	if x.CommaOk {
		f.vals[x] = Val{Tuple: []Val{v, {Sort: "Bool", Term: g.def(f.name(x)+"_ok", "Bool", has)}}}
	} else {
		f.vals[x] = v
	}
}

// ---------------------------------------------------------------------------
// map range: the keys are enumerated in an arbitrary order (an uninterpreted
// injective enumeration of the key set), so whatever is proved holds for every
// iteration order.

func (f *Frame) rangeInit(x *ssa.Range, st *State, reach string) {
	g := f.g
	m := f.val(x.X, st)
	if _, ok := x.X.Type().Underlying().(*types.Map); !ok {
		g.fail("%s: range over %s is not supported", f.fn.Name(), x.X.Type())
	}
	h, mv := g.sorts.mapHeap(m.Sort)
	snap := g.def(f.name(x)+"_snap", mv, fmt.Sprintf("(select %s %s)", g.heapGet(st, h), m.Term))
	f.rangeIt[x] = &rangeState{mapVal: m, snapshot: snap}
	kv := g.sorts.mapKV[m.Sort]
	// enumeration function of this range statement
	en := g.uf(f.name(x)+"_enum", []string{"Int"}, kv[0])
	cnt := fmt.Sprintf("(mcnt_%s %s)", mv, snap)
	// injective on [0,cnt), hits exactly the present keys
	g.assume(fmt.Sprintf("(>= %s 0)", cnt))
	g.assume(fmt.Sprintf("(forall ((i Int)) (! (=> (and (<= 0 i) (< i %s)) (select (mhas_%s %s) (%s i))) :pattern ((%s i))))", cnt, mv, snap, en, en))
	g.assume(fmt.Sprintf("(forall ((i Int) (j Int)) (! (=> (and (<= 0 i) (< i j) (< j %s)) (not (= (%s i) (%s j)))) :pattern ((%s i) (%s j))))", cnt, en, en, en, en))
	inv := g.uf(f.name(x)+"_pos", []string{kv[0]}, "Int")
	g.assume(fmt.Sprintf("(forall ((k %s)) (! (=> (select (mhas_%s %s) k) (and (<= 0 (%s k)) (< (%s k) %s) (= (%s (%s k)) k))) :pattern ((%s k))))", kv[0], mv, snap, inv, inv, cnt, en, inv, inv))
	st.cells[f.iterCell(x)] = Val{Sort: "Int", Term: "0"} // no key handed out yet
	f.vals[x] = Val{Sort: "Iter", Term: en, Tuple: []Val{{Sort: "Int", Term: cnt}, {Sort: mv, Term: snap}}, GoT: x.Type()}
}

func (f *Frame) rangeNext(x *ssa.Next, st *State, reach string) {
	g := f.g
	it := f.val(x.Iter, st)
	if it.Sort != "Iter" {
		g.fail("%s: next on a non-map iterator", f.fn.Name())
	}
	// position = number of Next calls so far: ghost counter cell attached to the iterator
	rs := f.rangeIt[x.Iter]
	if rs == nil {
		g.fail("%s: iterator without range", f.fn.Name())
	}
	posCell := f.iterCell(x.Iter)
	pos := g.load(st, &Addr{Cell: posCell}, nil)
	cnt := it.Tuple[0].Term
	snap := it.Tuple[1]
	ok := g.def(f.name(x)+"_ok", "Bool", fmt.Sprintf("(< %s %s)", pos.Term, cnt))
	kv := g.sorts.mapKV[rs.mapVal.Sort]
	key := g.def(f.name(x)+"_k", kv[0], fmt.Sprintf("(%s %s)", it.Term, pos.Term))
	mv := snap.Sort
	val := g.def(f.name(x)+"_v", kv[1], fmt.Sprintf("(select (mval_%s %s) %s)", mv, snap.Term, key))
	st.cells[posCell] = Val{Sort: "Int", Term: g.def(f.name(x)+"_pos", "Int", fmt.Sprintf("(ite %s (+ %s 1) %s)", ok, pos.Term, pos.Term))}
	f.vals[x] = Val{Tuple: []Val{{Sort: "Bool", Term: ok}, {Sort: kv[0], Term: key}, {Sort: kv[1], Term: val}}}
}

func (f *Frame) iterCell(it ssa.Value) *Cell {
	if c, ok := f.iterCells[it]; ok {
		return c
	}
	c := f.g.newCell(f.prefix+it.Name()+"_pos", "Int", types.Typ[types.Int])
	f.iterCells[it] = c
	return c
}

// ---------------------------------------------------------------------------
// loops

type loopInfo struct {
	preEntry     map[string]string
	allocAtEntry string
	hdrState     *State
	phiVals      map[*ssa.Phi]Val
	havocked     map[string]bool
	havCells     map[*Cell]bool
	autoPreserve []string // heaps in which the body only allocates fresh objects
	body         map[*ssa.BasicBlock]bool
	backConds    []string // path conditions of the back edges (vacuity guard: some iteration must be able to complete)
}

func (f *Frame) loopSpec(h *ssa.BasicBlock) *LoopSpec {
	if f.spec == nil {
		return nil
	}
	return f.spec.Loops[f.loopOrd[h]]
}

// envFor builds the spec environment for loop invariants of this frame.
func (f *Frame) loopEnv(h *ssa.BasicBlock, st *State, phiOverride map[*ssa.Phi]Val) *Env {
	g := f.g
	env := g.newEnv(st, g.entry)
	f.bindParams(env)
	if f.spec != nil {
		for _, l := range f.spec.Lets {
			env.lets[l.Name] = l.Expr
		}
	}
	// named locals (cells) and phis
	for _, b := range f.fn.Blocks {
		for _, ins := range b.Instrs {
			switch x := ins.(type) {
			case *ssa.Alloc:
				if x.Comment != "" {
					if v, ok := f.vals[x]; ok && v.Ptr != nil && v.Ptr.Cell != nil {
						env.cellVars[x.Comment] = v.Ptr.Cell
					}
				}
			case *ssa.Phi:
				name := strings.TrimPrefix(x.Comment, "#")
				if name == "" {
					continue
				}
				if v, ok := phiOverride[x]; ok {
					if b == h || env.vars[name].Term == "" {
						env.vars[name] = v
					}
				} else if v, ok := f.vals[x]; ok {
					if _, taken := env.vars[name]; !taken || b == h {
						env.vars[name] = v
					}
				}
			}
		}
	}
	// single-assignment locals defined in blocks that dominate the header (source names from debug refs)
	// The dominators are walked from the entry block down to the header, so that the value a re-assigned local
	// holds when the loop is reached (its last dominating reference) wins over earlier ones.
	var chain []*ssa.BasicBlock
	for b := h.Idom(); b != nil; b = b.Idom() {
		chain = append([]*ssa.BasicBlock{b}, chain...)
	}
	fromDbg := map[string]bool{}
	for _, b := range chain {
		for _, ins := range b.Instrs {
			if dr, ok := ins.(*ssa.DebugRef); ok && !dr.IsAddr {
				if id, ok := dr.Expr.(*ast.Ident); ok {
					if v, ok := f.vals[dr.X]; ok {
						if _, taken := env.vars[id.Name]; !taken || fromDbg[id.Name] {
							if _, isCell := env.cellVars[id.Name]; !isCell {
								env.vars[id.Name] = v
								fromDbg[id.Name] = true
							}
						}
					}
				}
			}
		}
	}
	// map range loops: `iterpos` is the number of keys handed out so far, rangekey(j) the j-th key of the (arbitrary) enumeration
	for b := range f.loopBlk[h] {
		for _, bi := range b.Instrs {
			if nx, ok := bi.(*ssa.Next); ok {
				if it, ok := f.vals[nx.Iter]; ok && it.Sort == "Iter" {
					c := f.iterCell(nx.Iter)
					env.cellVars["iterpos"] = c
					env.vars["rangekeys"] = Val{Sort: "Enum", Term: it.Term}
					env.vars["rangecount"] = it.Tuple[0]
				}
			}
		}
	}
	// store iterator loops (for ; it.Valid(); it.Next()): the same pseudo-variables, over the iterator's enumeration
	for b := range f.loopBlk[h] {
		for _, bi := range b.Instrs {
			if ci, ok := bi.(ssa.CallInstruction); ok && ci.Common().IsInvoke() && (ci.Common().Method.Name() == "Next" || ci.Common().Method.Name() == "Valid") {
				if it, ok := f.vals[ci.Common().Value]; ok && it.Sort == "Iter" {
					if ki := g.kvIters[it.Term]; ki != nil {
						env.cellVars["iterpos"] = ki.cell
						env.vars["rangekeys"] = Val{Sort: "Enum", Term: it.Term}
						env.vars["rangecount"] = Val{Sort: "Int", Term: ki.cnt}
						env.vars["rangeinv"] = Val{Sort: "Func", Term: ki.inv}
					}
				}
			}
		}
	}
	// `ranged`: the slice a range-over-slice loop with this header iterates over (the value indexed by rangeindex+1)
	for _, ins := range h.Instrs {
		phi, ok := ins.(*ssa.Phi)
		if !ok {
			break
		}
		if strings.TrimPrefix(phi.Comment, "#") != "rangeindex" {
			continue
		}
		// the ranged slice is the one whose length bounds the index in the loop condition: idx+1 < len(X)
		var rangedVal ssa.Value
		for _, hi := range h.Instrs {
			cmp, ok := hi.(*ssa.BinOp)
			if !ok || cmp.Op != token.LSS {
				continue
			}
			inc, ok := cmp.X.(*ssa.BinOp)
			if !ok || inc.X != ssa.Value(phi) {
				continue
			}
			if lc, ok := cmp.Y.(*ssa.Call); ok {
				if bi, ok := lc.Call.Value.(*ssa.Builtin); ok && bi.Name() == "len" && len(lc.Call.Args) == 1 {
					rangedVal = lc.Call.Args[0]
				}
			}
		}
		if rangedVal != nil {
			if v, ok := f.vals[rangedVal]; ok {
				env.vars["ranged"] = v
				continue
			}
		}
		for b := range f.loopBlk[h] {
			for _, bi := range b.Instrs {
				ia, ok := bi.(*ssa.IndexAddr)
				if !ok {
					continue
				}
				if bo, ok := ia.Index.(*ssa.BinOp); ok && bo.X == ssa.Value(phi) {
					if v, ok := f.vals[ia.X]; ok {
						env.vars["ranged"] = v
					}
				}
			}
		}
	}
	// The two spellings of a loop over a slice are interchangeable for the invariants:
	//   for i := 0; i < len(X); i++   -- at the head, i iterations are complete: rangeindex == i-1, ranged == X
	//   for i, v := range X           -- at the head, the key variable of the coming iteration is rangeindex+1
	if _, has := env.vars["rangeindex"]; !has {
		for _, ins := range h.Instrs {
			phi, ok := ins.(*ssa.Phi)
			if !ok {
				break
			}
			name := strings.TrimPrefix(phi.Comment, "#")
			pv, bound := env.vars[name]
			if name == "" || !bound || pv.Sort != "Int" {
				continue
			}
			for _, hi := range h.Instrs {
				cmp, ok := hi.(*ssa.BinOp)
				if !ok || cmp.Op != token.LSS || cmp.X != ssa.Value(phi) {
					continue
				}
				if lc, ok := cmp.Y.(*ssa.Call); ok {
					if bi, ok := lc.Call.Value.(*ssa.Builtin); ok && bi.Name() == "len" && len(lc.Call.Args) == 1 {
						if _, known := f.vals[lc.Call.Args[0]]; !known {
							// `i < len(msg.List)`: the slice is re-read in the header; evaluate those (pure) reads now
							f.peekHeader(h, cmp, st)
						}
						if xv, ok := f.vals[lc.Call.Args[0]]; ok {
							if _, isSlice := g.sorts.sliceEl[xv.Sort]; isSlice {
								env.vars["rangeindex"] = Val{Sort: "Int", Term: fmt.Sprintf("(- %s 1)", pv.Term)}
								env.vars["ranged"] = xv
							}
						}
					}
				}
			}
		}
	} else {
		for _, ins := range h.Instrs {
			phi, ok := ins.(*ssa.Phi)
			if !ok {
				break
			}
			if strings.TrimPrefix(phi.Comment, "#") != "rangeindex" {
				continue
			}
			pv := env.vars["rangeindex"]
			for b := range f.loopBlk[h] {
				for _, bi := range b.Instrs {
					dr, ok := bi.(*ssa.DebugRef)
					if !ok || dr.IsAddr {
						continue
					}
					id, isId := dr.Expr.(*ast.Ident)
					inc, isInc := dr.X.(*ssa.BinOp)
					if isId && isInc && inc.Op == token.ADD && inc.X == ssa.Value(phi) {
						if _, taken := env.vars[id.Name]; !taken {
							if _, isCell := env.cellVars[id.Name]; !isCell {
								env.vars[id.Name] = Val{Sort: "Int", Term: fmt.Sprintf("(+ %s 1)", pv.Term)}
							}
						}
					}
				}
			}
		}
	}
	if f.spec != nil && f.spec.adopted {
		for old, param := range f.spec.argAlias {
			if env.resolves(old) {
				continue
			}
			if c, ok := env.cellVars[param]; ok {
				env.cellVars[old] = c
			} else if v, ok := env.vars[param]; ok {
				env.vars[old] = v
			}
		}
	}
	env.loopEntry = f.loopEntry[h]
	// identifiers of the invariants that no longer name a local (renamed variable): bound once per loop
	if spec := f.loopSpec(h); spec != nil && f.spec != nil {
		if f.loopAlias == nil {
			f.loopAlias = map[*ssa.BasicBlock]map[string]string{}
		}
		if a, done := f.loopAlias[h]; done {
			env.alias = a
		} else {
			protect := map[string]bool{}
			for _, p := range f.fn.Params {
				protect[p.Name()] = true
			}
			if note := g.bindRenamed(env, f.spec, spec.Invariants, protect); note != "" {
				g.notes = append(g.notes, fmt.Sprintf("loop %d: %s", f.loopOrd[h], note))
			}
			f.loopAlias[h] = env.alias
		}
	}
	// every SSA register by its name (brittle, for last resort use)
	for v, val := range f.vals {
		if _, ok := env.vars[v.Name()]; !ok {
			env.vars["_"+v.Name()] = val
		}
	}
	for ph, v := range phiOverride {
		env.vars["_"+ph.Name()] = v
	}
	return env
}

// peekHeader evaluates the address computations and loads of a loop header that precede its condition, on a copy of
// the header state (they are pure; the regular pass evaluates them again).
func (f *Frame) peekHeader(h *ssa.BasicBlock, until ssa.Instruction, st *State) {
	defer func() {
		if rec := recover(); rec != nil {
			if _, isEE := rec.(engineError); !isEE {
				panic(rec)
			}
		}
	}()
	tmp := st.clone()
	for _, ins := range h.Instrs {
		if ins == until {
			return
		}
		switch x := ins.(type) {
		case *ssa.FieldAddr, *ssa.Field:
			f.instr(h, ins, tmp)
		case *ssa.UnOp:
			if x.Op == token.MUL {
				f.instr(h, ins, tmp)
			}
		}
	}
}

func (f *Frame) bindParams(env *Env) {
	for _, p := range f.fn.Params {
		env.vars[p.Name()] = f.vals[p]
	}
	for i, p := range f.fn.Params {
		env.vars[fmt.Sprintf("arg%d", i)] = f.vals[p]
	}
	for _, fv := range f.fn.FreeVars {
		v := f.vals[fv]
		if v.Ptr != nil && v.Ptr.Cell != nil && len(v.Ptr.Path) == 0 {
			env.cellVars[fv.Name()] = v.Ptr.Cell
		} else {
			env.vars[fv.Name()] = v
		}
	}
	// ghost variables of the contract (declared once, at function entry)
	if f.spec != nil && (f.depth == 0 || f.spec.adopted) {
		for _, v := range f.spec.Vars {
			env.vars[v.Name] = Val{Sort: v.Sort, Term: "ghost_" + v.Name}
		}
	}
}

func (f *Frame) loopHeader(h *ssa.BasicBlock, st *State, reach string) (*State, string) {
	g := f.g
	spec := f.loopSpec(h)
	if spec == nil {
		g.fail("%s: loop %d (block %d) has no invariant", relName(f.fn), f.loopOrd[h], h.Index)
	}
	reach = g.defBool(fmt.Sprintf("%sreach_pre_%d", f.prefix, h.Index), reach)
	if f.loopEntry == nil {
		f.loopEntry = map[*ssa.BasicBlock]*State{}
	}
	f.loopEntry[h] = st.clone()
	// 1. entry values of the phis
	f.phis(h, nil)
	entryPhi := map[*ssa.Phi]Val{}
	for _, ins := range h.Instrs {
		if phi, ok := ins.(*ssa.Phi); ok {
			entryPhi[phi] = f.vals[phi]
		} else {
			break
		}
	}
	// 2. invariant holds on entry
	env := f.loopEnv(h, st, entryPhi)
	for _, inv := range spec.Invariants {
		t := env.trBool(inv.Expr)
		g.oblige("invariant", fmt.Sprintf("loop%d_entry:%s", f.loopOrd[h], inv.Label), f.clauseProps(inv), f.fn, reach, t, inv.Src, h.Instrs[0].Pos())
	}
	// 3. havoc
	li := &loopInfo{phiVals: map[*ssa.Phi]Val{}, havocked: map[string]bool{}, havCells: map[*Cell]bool{}}
	f.loopInfos[h] = li
	hs := st.clone()
	// allocation counter only grows; values live at the loop head were allocated at or before its value there
	oldAlloc := g.heapGet(st, "$alloc")
	na := g.heapHavoc(hs, "$alloc")
	g.assume(fmt.Sprintf("(>= %s %s)", na, oldAlloc))
	g.allocBound = na
	defer func() { g.allocBound = "" }()
	for phi := range entryPhi {
		nv := g.freshVal(f.name(phi)+"_loop", phi.Type(), hs)
		f.vals[phi] = nv
		li.phiVals[phi] = nv
	}
	body := f.loopBlk[h]
	li.body = map[*ssa.BasicBlock]bool{}
	for b := range body {
		li.body[b] = true
	}
	// syntactic write set
	for b := range body {
		for _, ins := range b.Instrs {
			switch x := ins.(type) {
			case *ssa.Store:
				f.havocTarget(x.Addr, hs, li)
				if _, isAlloc := x.Val.(*ssa.Alloc); isAlloc {
					if _, toLocal := x.Addr.(*ssa.Alloc); !toLocal {
						// a local object whose address is stored in the heap moves to the pointer heap of its type
						if pt, ok := x.Val.Type().Underlying().(*types.Pointer); ok {
							if _, isStruct := pt.Elem().Underlying().(*types.Struct); isStruct {
								li.havocked[g.sorts.ptrHeap(g.sorts.sortOf(pt.Elem()))] = true
							}
						}
					}
				}
			case *ssa.MapUpdate:
				ms := g.sorts.sortOf(x.Map.Type())
				hname, _ := g.sorts.mapHeap(ms)
				li.havocked[hname] = true
			case *ssa.Next:
				li.havCells[f.iterCell(x.Iter)] = true
			case *ssa.Call:
				if x.Common().IsInvoke() && x.Common().Method.Name() == "Next" {
					if it, ok := f.vals[x.Common().Value]; ok && it.Sort == "Iter" {
						if ki := g.kvIters[it.Term]; ki != nil {
							li.havCells[ki.cell] = true
						}
					}
				}
				f.callEffects(x.Common(), li, 0, nil)
			}
		}
	}
	for _, m := range spec.Modifies {
		f.havocNamed(m, hs, li, env)
	}
	// `preserves H.x`: objects of heap x that existed when the loop was entered keep their contents (the loop only
	// allocates and fills fresh ones); checked like an invariant
	allocAtEntry := g.heapGet(st, "$alloc")
	preserves := append([]string{}, spec.Preserves...)
	for _, ap := range li.autoPreserve { // heaps in which the body only allocates (decoding into fresh slices)
		dup := false
		for _, pz := range preserves {
			if strings.TrimPrefix(pz, "H.") == ap {
				dup = true
			}
		}
		if !dup && !li.havocked[ap] {
			preserves = append(preserves, "H."+ap)
		}
	}
	sort.Strings(preserves)
	for _, pz := range preserves {
		name := strings.TrimPrefix(pz, "H.")
		li.havocked[name] = true
		g.heapGet(st, name)
	}
	var hnames []string
	for n := range li.havocked {
		hnames = append(hnames, n)
	}
	sort.Strings(hnames)
	for _, n := range hnames {
		g.heapGet(hs, n)
		g.heapHavoc(hs, n)
	}
	var cs []*Cell
	for c := range li.havCells {
		cs = append(cs, c)
	}
	sort.Slice(cs, func(i, j int) bool { return cs[i].id < cs[j].id })
	for _, c := range cs {
		if old, ok := hs.cells[c]; ok && old.Term == "" {
			continue // pointer-valued cell: keep
		}
		if _, ok := hs.cells[c]; !ok {
			continue // allocated inside the loop
		}
		hs.cells[c] = g.freshVal("c_"+c.name+"_loop", c.goT, hs)
	}
	g.allocBound = ""
	li.hdrState = hs.clone()
	li.preEntry = map[string]string{}
	for _, pz := range preserves {
		name := strings.TrimPrefix(pz, "H.")
		before := g.heapGet(st, name)
		li.preEntry[name] = before
		li.allocAtEntry = allocAtEntry
		g.assume(implies(reach, fmt.Sprintf("(forall ((l!q Int)) (=> (<= l!q %s) (= (select %s l!q) (select %s l!q))))", allocAtEntry, hs.heaps[name], before)))
	}
	// 4. assume invariant
	env2 := f.loopEnv(h, hs, li.phiVals)
	for _, inv := range spec.Invariants {
		t := env2.trBool(inv.Expr)
		g.assume(implies(reach, t))
	}
	// lemma instances for the coming iteration (terms evaluated at the loop head; the lemma is its own obligation)
	for _, ap := range spec.Applies {
		g.applyLemma(f.spec, ap, env2)
	}
	return hs, reach
}

func (f *Frame) clauseProps(c *Clause) []string {
	if len(c.Props) > 0 {
		return c.Props
	}
	return f.props()
}

func (f *Frame) havocTarget(addr ssa.Value, st *State, li *loopInfo) {
	g := f.g
	// find the root of the address expression syntactically
	for {
		switch a := addr.(type) {
		case *ssa.FieldAddr:
			addr = a.X
			continue
		case *ssa.IndexAddr:
			switch a.X.Type().Underlying().(type) {
			case *types.Slice:
				s := g.sorts.sortOf(a.X.Type())
				if _, ok := g.sorts.sliceEl[s]; ok {
					li.havocked[g.sorts.heapFor(s)] = true
				}
				return
			case *types.Pointer:
				at := a.X.Type().Underlying().(*types.Pointer).Elem().Underlying().(*types.Array)
				hn := g.sorts.heapForElem(g.sorts.sortOf(at.Elem()))
				if al, ok := a.X.(*ssa.Alloc); ok && li.body != nil && li.body[al.Block()] {
					// an array allocated by the body itself (variadic arguments, literals): the heap only grows
					li.autoPreserve = append(li.autoPreserve, hn)
					return
				}
				li.havocked[hn] = true
				return
			}
			return
		}
		break
	}
	if v, ok := f.vals[addr]; ok {
		if v.Ptr != nil && v.Ptr.Cell != nil {
			li.havCells[v.Ptr.Cell] = true
		} else if v.Ptr != nil && v.Ptr.Heap != "" {
			li.havocked[v.Ptr.Heap] = true
		} else if v.Ptr != nil && v.Ptr.PHeap != "" {
			li.havocked[v.Ptr.PHeap] = true
		} else if v.Term != "" {
			if pt, ok := addr.Type().Underlying().(*types.Pointer); ok {
				li.havocked[g.sorts.ptrHeap(g.sorts.sortOf(pt.Elem()))] = true
			}
		}
		return
	}
	// address computed inside the loop (e.g. loaded pointer): havoc the pointer heap of its type
	if pt, ok := addr.Type().Underlying().(*types.Pointer); ok {
		if _, isAlloc := addr.(*ssa.Alloc); isAlloc {
			return
		}
		if _, isGlobal := addr.(*ssa.Global); isGlobal {
			c := g.globals[addr.(*ssa.Global)]
			if c != nil {
				li.havCells[c] = true
			}
			return
		}
		li.havocked[g.sorts.ptrHeap(g.sorts.sortOf(pt.Elem()))] = true
	}
}

// havocNamed: explicit `modifies` of a loop: world components (W.x.y), heaps
// (H.name), named locals, or `*` for everything.
func (f *Frame) havocNamed(m string, st *State, li *loopInfo, env *Env) {
	g := f.g
	if m == "*" {
		for n := range g.w.world {
			if g.worldAvailable(n) {
				li.havocked[n] = true
			}
		}
		for n := range g.sorts.heapUsed {
			li.havocked[n] = true
		}
		return
	}
	if strings.HasPrefix(m, "W.") {
		if _, ok := g.w.world[m]; !ok {
			g.fail("unknown world component %s in modifies", m)
		}
		li.havocked[m] = true
		return
	}
	if strings.HasPrefix(m, "H.") {
		li.havocked[strings.TrimPrefix(m, "H.")] = true
		return
	}
	m = strings.TrimPrefix(m, "*")
	if c, ok := env.cellVars[m]; ok {
		li.havCells[c] = true
		return
	}
	if v, ok := env.vars[m]; ok && v.Ptr != nil && v.Ptr.Cell != nil {
		li.havCells[v.Ptr.Cell] = true
		return
	}
	g.fail("%s: cannot resolve loop modifies target %q", relName(f.fn), m)
}

func (f *Frame) loopBackEdge(from, h *ssa.BasicBlock, cond string, st *State) {
	g := f.g
	li := f.loopInfos[h]
	spec := f.loopSpec(h)
	if li == nil || spec == nil {
		g.fail("%s: back edge to a block that is not a processed loop header", relName(f.fn))
	}
	cond = g.defBool(fmt.Sprintf("%sback_%d_%d", f.prefix, from.Index, h.Index), cond)
	li.backConds = append(li.backConds, cond)
	// phi values along this edge
	pv := map[*ssa.Phi]Val{}
	for _, ins := range h.Instrs {
		phi, ok := ins.(*ssa.Phi)
		if !ok {
			break
		}
		for i, p := range h.Preds {
			if p == from {
				pv[phi] = f.val(phi.Edges[i], st)
			}
		}
	}
	env := f.loopEnv(h, st, pv)
	for _, inv := range spec.Invariants {
		t := env.trBool(inv.Expr)
		g.oblige("invariant", fmt.Sprintf("loop%d_preserved:%s", f.loopOrd[h], inv.Label), f.clauseProps(inv), f.fn, cond, t, inv.Src, from.Instrs[len(from.Instrs)-1].Pos())
	}
	for name, before := range li.preEntry {
		g.oblige("invariant", fmt.Sprintf("loop%d_preserved:preexisting_%s_untouched", f.loopOrd[h], name), f.props(), f.fn, cond,
			fmt.Sprintf("(forall ((l!q Int)) (=> (<= l!q %s) (= (select %s l!q) (select %s l!q))))", li.allocAtEntry, g.heapGet(st, name), before), "preserves H."+name, token.NoPos)
	}
	// frame: everything not havocked must be unchanged
	var names []string
	for n := range st.heaps {
		names = append(names, n)
	}
	sort.Strings(names)
	for _, n := range names {
		if n == "$alloc" || li.havocked[n] {
			continue
		}
		before, ok := li.hdrState.heaps[n]
		if !ok {
			before = g.heapGet(g.entry, n)
		}
		if st.heaps[n] != before {
			g.oblige("frame", fmt.Sprintf("loop%d_unmodified:%s", f.loopOrd[h], n), f.props(), f.fn, cond, fmt.Sprintf("(= %s %s)", st.heaps[n], before), "", token.NoPos)
		}
	}
	var cs []*Cell
	for c := range li.hdrState.cells {
		cs = append(cs, c)
	}
	sort.Slice(cs, func(i, j int) bool { return cs[i].id < cs[j].id })
	for _, c := range cs {
		if li.havCells[c] {
			continue
		}
		now, ok := st.cells[c]
		before := li.hdrState.cells[c]
		if !ok || sameVal(now, before) {
			continue
		}
		if now.Term == "" || before.Term == "" {
			g.fail("%s: pointer cell %s changes inside a loop", relName(f.fn), c.name)
		}
		g.oblige("frame", fmt.Sprintf("loop%d_unmodified:%s", f.loopOrd[h], c.name), f.props(), f.fn, cond, fmt.Sprintf("(= %s %s)", now.Term, before.Term), "", token.NoPos)
	}
}

// zeroArray: the content of a freshly allocated array. Zero-initialised when
// the element zero is an SMT value; otherwise an unconstrained array (sound
// over-approximation; cvc5 accepts only values in constant arrays).
func (g *Gen) zeroArray(el string) string {
	z := g.sorts.zero(el, nil)
	if el == "Int" || el == "Bool" {
		return fmt.Sprintf("((as const (Array Int %s)) %s)", el, z)
	}
	if g.concrete && el == "Str" {
		return "((as const (Array Int Str)) \"\")"
	}
	return g.fresh("newarr", "(Array Int "+el+")")
}

// callEffects over-approximates what a call inside a loop may modify (used
// for the havoc at the loop header; the frame check at the back edge verifies
// that nothing outside this set changed).
func (f *Frame) callEffects(c *ssa.CallCommon, li *loopInfo, depth int, argMap map[ssa.Value]ssa.Value) {
	g := f.g
	resolve := func(v ssa.Value) ssa.Value {
		for argMap != nil {
			if m, ok := argMap[v]; ok {
				return m
			}
			break
		}
		return v
	}
	if b, ok := c.Value.(*ssa.Builtin); ok {
		switch b.Name() {
		case "append":
			s := g.sorts.sortOf(c.Args[0].Type())
			if _, ok := g.sorts.sliceEl[s]; ok {
				li.havocked[g.sorts.heapFor(s)] = true
			}
		case "delete":
			ms := g.sorts.sortOf(c.Args[0].Type())
			hname, _ := g.sorts.mapHeap(ms)
			li.havocked[hname] = true
		}
		return
	}
	var ct *Contract
	var names []string
	var actuals []ssa.Value
	var callee *ssa.Function
	if c.IsInvoke() {
		full := c.Method.FullName()
		if strings.HasPrefix(full, "(github.com/cosmos/cosmos-sdk/codec.BinaryCodec).") || strings.HasPrefix(full, "(github.com/cosmos/cosmos-sdk/codec.Codec).") {
			// codec model: decoding writes the target object (and allocates fresh slices), encoding writes nothing
			if strings.Contains(c.Method.Name(), "Unmarshal") && len(c.Args) >= 2 {
				if mi, ok := c.Args[1].(*ssa.MakeInterface); ok {
					f.havocTarget(resolve(mi.X), nil, li)
					// the decoded message gets freshly allocated slices: those heaps only grow
					if pt, ok := mi.X.Type().Underlying().(*types.Pointer); ok {
						if info := g.sorts.structs[g.sorts.sortOf(pt.Elem())]; info != nil {
							for _, fld := range info.Fields {
								if _, isSlice := g.sorts.sliceEl[fld.Sort]; isSlice {
									li.autoPreserve = append(li.autoPreserve, g.sorts.heapFor(fld.Sort))
								}
							}
						}
					}
				}
			}
			return
		}
	}
	if c.IsInvoke() {
		ct, _ = g.lookupInvokeContract(c)
		names = []string{"recv"}
		actuals = append(actuals, c.Value)
		sig := c.Signature()
		for i := 0; i < sig.Params().Len(); i++ {
			names = append(names, sig.Params().At(i).Name())
		}
		actuals = append(actuals, c.Args...)
	} else if fn := c.StaticCallee(); fn != nil {
		callee = fn
		ct = g.lookupContract(fn)
		names = paramNames(fn)
		actuals = c.Args
	}
	everything := func() {
		for n := range g.w.world {
			if g.worldAvailable(n) {
				li.havocked[n] = true
			}
		}
		for n := range g.sorts.heapUsed {
			li.havocked[n] = true
		}
		for _, a := range actuals {
			if _, ok := a.Type().Underlying().(*types.Pointer); ok {
				f.havocTarget(resolve(a), nil, li)
			}
		}
	}
	if ct != nil && (!ct.Inline || callee == nil) {
		if ct.ArgNames != nil {
			names = ct.ArgNames
		}
		if ct.ModAll {
			everything()
			return
		}
		for _, m := range ct.Modifies {
			switch {
			case strings.HasPrefix(m, "W."):
				li.havocked[m] = true
			case strings.HasPrefix(m, "H."):
				li.havocked[strings.TrimPrefix(m, "H.")] = true
			default:
				// *p, map(p), arr(p): find the parameter
				inner := strings.TrimPrefix(m, "*")
				inner = strings.TrimSuffix(strings.TrimPrefix(strings.TrimPrefix(inner, "map("), "arr("), ")")
				inner = strings.TrimPrefix(inner, "*")
				fieldPath := ""
				if i := strings.IndexAny(inner, ".["); i >= 0 {
					fieldPath = inner[i:]
					inner = inner[:i]
				}
				// type of the designated object: follow .Field selectors from the parameter's type
				walk := func(t types.Type) types.Type {
					for _, fld := range strings.Split(strings.Trim(fieldPath, "."), ".") {
						if fld == "" || strings.ContainsAny(fld, "[]") {
							break
						}
						if pt, ok := t.Underlying().(*types.Pointer); ok {
							t = pt.Elem()
						}
						st, ok := t.Underlying().(*types.Struct)
						if !ok {
							break
						}
						for k := 0; k < st.NumFields(); k++ {
							if st.Field(k).Name() == fld {
								t = st.Field(k).Type()
							}
						}
					}
					return t
				}
				found := false
				for i, n := range names {
					if (n == inner || fmt.Sprintf("arg%d", i) == inner || (len(ct.Params) == len(names) && ct.Params[i] == inner)) && i < len(actuals) {
						found = true
						a := resolve(actuals[i])
						switch {
						case strings.HasPrefix(m, "map("):
							t := walk(a.Type())
							if pt, ok := t.Underlying().(*types.Pointer); ok {
								t = pt.Elem()
							}
							if _, ok := t.Underlying().(*types.Map); ok {
								hn, _ := g.sorts.mapHeap(g.sorts.sortOf(t))
								li.havocked[hn] = true
							}
						case strings.HasPrefix(m, "arr("):
							t := walk(a.Type())
							if pt, ok := t.Underlying().(*types.Pointer); ok {
								t = pt.Elem()
							}
							if s := g.sorts.sortOf(t); g.sorts.sliceEl[s] != "" {
								li.havocked[g.sorts.heapFor(s)] = true
							}
						default:
							f.havocTarget(a, nil, li)
						}
					}
				}
				if !found {
					everything()
				}
			}
		}
		return
	}
	if callee != nil && len(callee.Blocks) > 0 && depth < maxInlineDepth {
		repo := callee.Pkg != nil && isRepoPkg(callee.Pkg.Pkg)
		if repo || ct != nil {
			// inlined callee: scan its body
			am := map[ssa.Value]ssa.Value{}
			for i, p := range callee.Params {
				if i < len(actuals) {
					am[p] = resolve(actuals[i])
				}
			}
			if li.body != nil {
				// the callee runs inside the loop body: its own allocations are fresh in every iteration
				for _, b := range callee.Blocks {
					li.body[b] = true
				}
			}
			for _, b := range callee.Blocks {
				for _, ins := range b.Instrs {
					switch x := ins.(type) {
					case *ssa.Store:
						root := x.Addr
						for {
							if fa, ok := root.(*ssa.FieldAddr); ok {
								root = fa.X
								continue
							}
							break
						}
						if m, ok := am[root]; ok {
							f.havocTarget(m, nil, li)
						} else if _, isAlloc := root.(*ssa.Alloc); !isAlloc {
							if _, isIdx := root.(*ssa.IndexAddr); isIdx {
								f.havocTarget(root, nil, li)
							} else if _, ok := root.Type().Underlying().(*types.Pointer); ok {
								f.havocTarget(root, nil, li)
							}
						}
					case *ssa.MapUpdate:
						hn, _ := g.sorts.mapHeap(g.sorts.sortOf(x.Map.Type()))
						li.havocked[hn] = true
					case *ssa.Call:
						f.callEffects(x.Common(), li, depth+1, am)
					}
				}
			}
			return
		}
	}
	// unmodelled: pure externals modify nothing, others everything
	if callee != nil {
		switch callee.String() {
		case "fmt.Sprintf", "fmt.Errorf", "fmt.Sprint", "strings.Join", "github.com/cosmos/cosmos-sdk/types/errors.Wrapf", "github.com/cosmos/cosmos-sdk/types/errors.Wrap",
			"github.com/cosmos/cosmos-sdk/types.NewCoins", "github.com/cosmos/cosmos-sdk/types.MustNewDecFromStr", "crypto/sha256.New", "io.WriteString", "(github.com/cosmos/cosmos-sdk/types.Coins).Add":
			return
		}
	}
	pure := true
	for _, a := range actuals {
		switch a.Type().Underlying().(type) {
		case *types.Pointer, *types.Map, *types.Signature, *types.Interface:
			pure = false
		case *types.Slice:
			if g.sorts.sortOf(a.Type()) != "Str" {
				pure = false
			}
		case *types.Struct:
			s := g.sorts.sortOf(a.Type())
			if s == "Ctx" || strings.HasPrefix(s, "O_") || strings.Contains(s, "Keeper") {
				pure = false
			}
		}
	}
	if !pure {
		everything()
	}
}

func isByte(t types.Type) bool {
	b, ok := t.Underlying().(*types.Basic)
	return ok && (b.Kind() == types.Uint8 || b.Kind() == types.Byte)
}
