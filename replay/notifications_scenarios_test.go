package keeper_test

// Scenario replays for x/notifications (injected with `go test -overlay`).

import (
	"fmt"
	"strings"
	"testing"
	"time"

	sdk "github.com/cosmos/cosmos-sdk/types"
	typesparams "github.com/cosmos/cosmos-sdk/x/params/types"
	canineglobaltestutil "github.com/jackalLabs/canine-chain/v4/testutil"
	moduletestutil "github.com/jackalLabs/canine-chain/v4/types/module/testutil"
	notifmodule "github.com/jackalLabs/canine-chain/v4/x/notifications"
	"github.com/jackalLabs/canine-chain/v4/x/notifications/keeper"
	types "github.com/jackalLabs/canine-chain/v4/x/notifications/types"
	tmproto "github.com/tendermint/tendermint/proto/tendermint/types"
)

type nRns struct{}

func (nRns) Resolve(_ sdk.Context, name string) (sdk.AccAddress, error) {
	return sdk.AccAddressFromBech32(name)
}

func nSetup(t *testing.T) (*keeper.Keeper, sdk.Context) {
	key := sdk.NewKVStoreKey(types.StoreKey)
	mkey := sdk.NewKVStoreKey("mem_notifications_verif")
	tkey := sdk.NewTransientStoreKey("transient_test")
	testCtx := canineglobaltestutil.DefaultContextWithDB(t, tkey, key)
	ctx := testCtx.Ctx.WithBlockHeader(tmproto.Header{Height: 10, Time: time.Unix(1_700_000_000, 0).UTC()})
	encCfg := moduletestutil.MakeTestEncodingConfig()
	types.RegisterInterfaces(encCfg.InterfaceRegistry)
	ps := typesparams.NewSubspace(encCfg.Codec, types.Amino, key, tkey, "NotificationsParams")
	k := keeper.NewKeeper(encCfg.Codec, key, mkey, ps, nRns{})
	return k, ctx
}

func nAddr(i int) sdk.AccAddress { return sdk.AccAddress([]byte(fmt.Sprintf("verif-account-%06d", i))) }

// C18: blocking a sender must not make an entry appear in any inbox.
func TestVerifScenario_C18_block_entry_in_inbox(t *testing.T) {
	k, ctx := nSetup(t)
	ms := keeper.NewMsgServerImpl(*k)
	a, b := nAddr(1), nAddr(2)
	before := len(k.GetAllNotificationsByAddress(ctx, a.String()))
	if _, err := ms.BlockSenders(sdk.WrapSDKContext(ctx), &types.MsgBlockSenders{Creator: a.String(), ToBlock: []string{b.String()}}); err != nil {
		fmt.Println("SCENARIO-ERROR", err)
		return
	}
	inbox := k.GetAllNotificationsByAddress(ctx, a.String())
	if len(inbox) != before {
		fmt.Printf("SCENARIO-VIOLATION nobody sent %s anything, yet after it blocked %s its inbox lists %d entr(y/ies): %+v\n", a, b, len(inbox), inbox)
		return
	}
	fmt.Println("SCENARIO-OK inbox unchanged by blocking")
}

// C18: two notifications from the same sender in the same block must both be listed.
func TestVerifScenario_C18_same_block_overwrite(t *testing.T) {
	k, ctx := nSetup(t)
	ms := keeper.NewMsgServerImpl(*k)
	a, b := nAddr(1), nAddr(2)
	for i := 0; i < 2; i++ {
		if _, err := ms.CreateNotification(sdk.WrapSDKContext(ctx), &types.MsgCreateNotification{Creator: b.String(), To: a.String(), Contents: fmt.Sprintf(`{"n":%d}`, i)}); err != nil {
			fmt.Println("SCENARIO-ERROR", err)
			return
		}
	}
	inbox := k.GetAllNotificationsByAddress(ctx, a.String())
	if len(inbox) != 2 {
		fmt.Printf("SCENARIO-VIOLATION two notifications were sent successfully to %s in one block, its inbox lists %d: %+v\n", a, len(inbox), inbox)
		return
	}
	fmt.Println("SCENARIO-OK both notifications listed")
}

// C18: a sender the recipient has blocked must not deliver, however it spells its own address. bech32 decoding accepts
// the all-upper-case spelling of an address (same account, same signature), so the message passes ValidateBasic and
// GetSigners names the blocked account.
func TestVerifScenario_C18_blocked_sender_upper_case(t *testing.T) {
	k, ctx := nSetup(t)
	ms := keeper.NewMsgServerImpl(*k)
	a, b := nAddr(1), nAddr(2)
	if _, err := ms.BlockSenders(sdk.WrapSDKContext(ctx), &types.MsgBlockSenders{Creator: a.String(), ToBlock: []string{b.String()}}); err != nil {
		fmt.Println("SCENARIO-ERROR", err)
		return
	}
	if _, err := ms.CreateNotification(sdk.WrapSDKContext(ctx), &types.MsgCreateNotification{Creator: b.String(), To: a.String(), Contents: `{"n":0}`}); err == nil {
		fmt.Println("SCENARIO-ERROR the block is not even effective for the plain spelling")
		return
	}
	msg := &types.MsgCreateNotification{Creator: strings.ToUpper(b.String()), To: a.String(), Contents: `{"n":1}`}
	if err := msg.ValidateBasic(); err != nil {
		fmt.Println("SCENARIO-OK upper-case spelling refused by ValidateBasic:", err)
		return
	}
	signers := msg.GetSigners()
	if len(signers) != 1 || !signers[0].Equals(b) {
		fmt.Println("SCENARIO-ERROR the upper-case spelling does not name the blocked account")
		return
	}
	if _, err := ms.CreateNotification(sdk.WrapSDKContext(ctx), msg); err != nil {
		fmt.Println("SCENARIO-OK blocked sender refused under the upper-case spelling:", err)
		return
	}
	inbox := k.GetAllNotificationsByAddress(ctx, a.String())
	n := 0
	for _, e := range inbox {
		if e.Contents == `{"n":1}` {
			n++
		}
	}
	fmt.Printf("SCENARIO-VIOLATION %s blocked %s; the same account, signing as %s, delivered: %d notification(s) from it in the inbox\n", a, b, msg.Creator, n)
}

// C18: a block placed by a recipient that spells its own address in upper case must be effective.
func TestVerifScenario_C18_blocker_upper_case(t *testing.T) {
	k, ctx := nSetup(t)
	ms := keeper.NewMsgServerImpl(*k)
	a, b := nAddr(1), nAddr(2)
	bm := &types.MsgBlockSenders{Creator: strings.ToUpper(a.String()), ToBlock: []string{b.String()}}
	if err := bm.ValidateBasic(); err != nil {
		fmt.Println("SCENARIO-OK upper-case spelling refused by ValidateBasic:", err)
		return
	}
	if _, err := ms.BlockSenders(sdk.WrapSDKContext(ctx), bm); err != nil {
		fmt.Println("SCENARIO-OK", err)
		return
	}
	if _, err := ms.CreateNotification(sdk.WrapSDKContext(ctx), &types.MsgCreateNotification{Creator: b.String(), To: a.String(), Contents: `{"n":2}`}); err != nil {
		fmt.Println("SCENARIO-OK blocked sender refused:", err)
		return
	}
	fmt.Printf("SCENARIO-VIOLATION account %s (signing as %s) blocked %s, which still delivered\n", a, bm.Creator, b)
}

// C19: exporting and importing must preserve the block lists.
func TestVerifScenario_C19_block_list_not_in_genesis(t *testing.T) {
	k, ctx := nSetup(t)
	owner, spammer := nAddr(1), nAddr(2)
	k.SetBlock(ctx, types.Block{Address: owner.String(), BlockedAddress: spammer.String()})
	exported := notifmodule.ExportGenesis(ctx, *k)
	k2, ctx2 := nSetup(t)
	notifmodule.InitGenesis(ctx2, *k2, *exported)
	before := k.IsBlocked(ctx, owner.String(), spammer.String())
	after := k2.IsBlocked(ctx2, owner.String(), spammer.String())
	if before && !after {
		fmt.Printf("SCENARIO-VIOLATION the sender was blocked before export (%v) and is no longer blocked after import (%v); the export lists %d 'notification(s)' decoded from the block entry\n", before, after, len(exported.Notifications))
		return
	}
	fmt.Printf("SCENARIO-OK blocked before=%v after=%v\n", before, after)
}
