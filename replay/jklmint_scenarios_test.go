package keeper_test

// Scenario replays for x/jklmint (injected with `go test -overlay`; uses the package's own test app helpers).

import (
	"fmt"
	"testing"

	jklmintmodule "github.com/jackalLabs/canine-chain/v4/x/jklmint"
	"github.com/jackalLabs/canine-chain/v4/x/jklmint/types"
)

// C19: exporting and importing must preserve the minted-block records (the previous emission drives the next one).
func TestVerifScenario_C19_minted_blocks_not_in_genesis(t *testing.T) {
	app, ctx := createTestApp(false)
	app.MintKeeper.SetMintedBlock(ctx, types.MintedBlock{Height: 41, Minted: 3_000_000, Denom: "ujkl"})
	exported := jklmintmodule.ExportGenesis(ctx, app.MintKeeper)
	app2, ctx2 := createTestApp(false)
	jklmintmodule.InitGenesis(ctx2, app2.MintKeeper, *exported)
	_, before := app.MintKeeper.GetMintedBlock(ctx, 41)
	_, after := app2.MintKeeper.GetMintedBlock(ctx2, 41)
	if before && !after {
		fmt.Printf("SCENARIO-VIOLATION the minted-block record of height 41 exists before export (%v) and not after import (%v): the next block's emission restarts from TokensPerBlock\n", before, after)
		return
	}
	fmt.Printf("SCENARIO-OK minted block before=%v after=%v\n", before, after)
}
