package utils_test

// Prelude conformance harness (injected with `go test -overlay`; never written into the repository).
// Prints, for sampled and boundary operands, what the real cosmos-sdk Dec / Int operations return:
//   CONF|<prelude contract key>|<arg0>|<arg1 or ->|<result>
// Dec values are printed as their raw 18-decimal integer. govc checks every line against the trusted prelude contract
// of that function (theory/prelude/sdk_dec.go): a bounded test of an assumption, not a proof.

import (
	"fmt"
	"math/big"
	"math/rand"
	"os"
	"strconv"
	"strings"
	"testing"

	sdk "github.com/cosmos/cosmos-sdk/types"
)

func decRaw(d sdk.Dec) string { return d.BigInt().String() }

func mkDec(raw *big.Int) sdk.Dec { return sdk.NewDecFromBigIntWithPrec(new(big.Int).Set(raw), 18) }

func TestVerifPreludeConformance(t *testing.T) {
	seed := int64(1)
	if s := os.Getenv("VERIF_SEED"); s != "" {
		if v, err := strconv.ParseInt(s, 10, 64); err == nil {
			seed = v
		}
	}
	n := 150
	if s := os.Getenv("VERIF_CONF_N"); s != "" {
		if v, err := strconv.Atoi(s); err == nil {
			n = v
		}
	}
	r := rand.New(rand.NewSource(seed))
	pick := func() *big.Int {
		switch r.Intn(8) {
		case 0:
			return big.NewInt(int64(r.Intn(7)) - 3)
		case 1: // halves: ties of the banker's rounding
			x := new(big.Int).Mul(big.NewInt(int64(r.Intn(2001))-1000), big.NewInt(500000000000000000))
			return x
		case 2:
			return new(big.Int).Mul(big.NewInt(r.Int63n(1_000_000_000_000)-500_000_000_000), big.NewInt(1_000_000_000_000_000_000))
		case 3:
			return big.NewInt(r.Int63() - (1 << 62))
		case 4:
			x := new(big.Int).Mul(big.NewInt(r.Int63()), big.NewInt(r.Int63()))
			if r.Intn(2) == 0 {
				x.Neg(x)
			}
			return x
		case 5:
			return big.NewInt(int64(r.Intn(2000001)) - 1000000)
		default:
			x := new(big.Int).Mul(big.NewInt(r.Int63n(2_000_000_000)-1_000_000_000), big.NewInt(int64(r.Intn(1_000_000_000))+1))
			return x
		}
	}
	D := "github.com/cosmos/cosmos-sdk/types.Dec"
	I := "github.com/cosmos/cosmos-sdk/types.Int"
	for k := 0; k < n; k++ {
		a, b := pick(), pick()
		da, db := mkDec(a), mkDec(b)
		ia, ib := sdk.NewIntFromBigInt(a), sdk.NewIntFromBigInt(b)
		i64 := r.Int63() - (1 << 62)
		if k%3 == 0 {
			i64 = int64(r.Intn(2001)) - 1000
		}
		fmt.Printf("CONF|(%s).Mul|%s|%s|%s\n", D, a, b, decRaw(da.Mul(db)))
		fmt.Printf("CONF|(%s).Add|%s|%s|%s\n", D, a, b, decRaw(da.Add(db)))
		fmt.Printf("CONF|(%s).Sub|%s|%s|%s\n", D, a, b, decRaw(da.Sub(db)))
		fmt.Printf("CONF|(%s).MulInt64|%s|%d|%s\n", D, a, i64, decRaw(da.MulInt64(i64)))
		fmt.Printf("CONF|(%s).MulInt|%s|%s|%s\n", D, a, b, decRaw(da.MulInt(ib)))
		fmt.Printf("CONF|(%s).TruncateInt|%s|-|%s\n", D, a, da.TruncateInt().BigInt())
		fmt.Printf("CONF|(%s).TruncateDec|%s|-|%s\n", D, a, decRaw(da.TruncateDec()))
		fmt.Printf("CONF|(%s).LT|%s|%s|%v\n", D, a, b, da.LT(db))
		fmt.Printf("CONF|(%s).GTE|%s|%s|%v\n", D, a, b, da.GTE(db))
		fmt.Printf("CONF|(%s).IsNegative|%s|-|%v\n", D, a, da.IsNegative())
		if tr := da.TruncateInt(); tr.IsInt64() {
			fmt.Printf("CONF|(%s).TruncateInt64|%s|-|%d\n", D, a, da.TruncateInt64())
		}
		if b.Sign() != 0 {
			fmt.Printf("CONF|(%s).Quo|%s|%s|%s\n", D, a, b, decRaw(da.Quo(db)))
			fmt.Printf("CONF|(%s).QuoInt|%s|%s|%s\n", D, a, b, decRaw(da.QuoInt(ib)))
			fmt.Printf("CONF|(%s).Quo|%s|%s|%s\n", I, a, b, ia.Quo(ib).BigInt())
		}
		if i64 != 0 {
			fmt.Printf("CONF|(%s).QuoInt64|%s|%d|%s\n", D, a, i64, decRaw(da.QuoInt64(i64)))
			fmt.Printf("CONF|(%s).QuoRaw|%s|%d|%s\n", I, a, i64, ia.QuoRaw(i64).BigInt())
		}
		fmt.Printf("CONF|(%s).ToDec|%s|-|%s\n", I, a, decRaw(ia.ToDec()))
		fmt.Printf("CONF|(%s).Mul|%s|%s|%s\n", I, a, b, ia.Mul(ib).BigInt())
		fmt.Printf("CONF|(%s).MulRaw|%s|%d|%s\n", I, a, i64, ia.MulRaw(i64).BigInt())
		fmt.Printf("CONF|(%s).Sub|%s|%s|%s\n", I, a, b, ia.Sub(ib).BigInt())
		fmt.Printf("CONF|(%s).Add|%s|%s|%s\n", I, a, b, ia.Add(ib).BigInt())
		fmt.Printf("CONF|github.com/cosmos/cosmos-sdk/types.NewDec|%d|-|%s\n", i64, decRaw(sdk.NewDec(i64)))
		fmt.Printf("CONF|github.com/cosmos/cosmos-sdk/types.NewDecFromInt|%s|-|%s\n", a, decRaw(sdk.NewDecFromInt(ia)))
	}
	// Axioms of theory/bank.smt2 about address strings, sampled on the real decoder:
	//   AXIOM|<name>|<assumed yes/no>|<cases>|<counterexamples>
	roundtrip, upperAccepted, upperSameAccount, upperCanonical := 0, 0, 0, 0
	for i := 0; i < n; i++ {
		raw := make([]byte, 20)
		r.Read(raw)
		acc := sdk.AccAddress(raw)
		s := acc.String()
		back, err := sdk.AccAddressFromBech32(s)
		if err != nil || !back.Equals(acc) {
			roundtrip++
		}
		up := strings.ToUpper(s)
		other, err := sdk.AccAddressFromBech32(up)
		if err == nil {
			upperAccepted++
			if other.Equals(acc) {
				upperSameAccount++
			}
			if other.String() == up {
				upperCanonical++
			}
		}
	}
	fmt.Printf("AXIOM|addr_of(bech32(a)) == a and bech32_ok(bech32(a))|yes|%d|%d\n", n, roundtrip)
	fmt.Printf("AXIOM|bech32_ok(s) ==> bech32(addr_of(s)) == s (a valid string is its own canonical spelling)|no|%d|%d\n", n, upperAccepted-upperCanonical)
	fmt.Printf("AXIOM|the upper-case spelling of a valid address names the same account|info|%d|%d\n", upperAccepted, upperAccepted-upperSameAccount)
}
