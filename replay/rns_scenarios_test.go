package keeper_test

// Scenario replays for x/rns (injected with `go test -overlay`; never written
// into the repository). Each test drives the REAL keeper through the
// sequence that the failed obligation describes, on a ledger bank that tracks
// every balance including module accounts, and prints
//   SCENARIO-VIOLATION <what>   if the property instance is violated
//   SCENARIO-OK <what>          otherwise.

import (
	"fmt"
	"testing"

	"github.com/cosmos/cosmos-sdk/baseapp"
	sdk "github.com/cosmos/cosmos-sdk/types"
	authtypes "github.com/cosmos/cosmos-sdk/x/auth/types"
	typesparams "github.com/cosmos/cosmos-sdk/x/params/types"
	canineglobaltestutil "github.com/jackalLabs/canine-chain/v4/testutil"
	jkltypes "github.com/jackalLabs/canine-chain/v4/types"
	moduletestutil "github.com/jackalLabs/canine-chain/v4/types/module/testutil"
	rnsmodule "github.com/jackalLabs/canine-chain/v4/x/rns"
	"github.com/jackalLabs/canine-chain/v4/x/rns/keeper"
	types "github.com/jackalLabs/canine-chain/v4/x/rns/types"
	tmproto "github.com/tendermint/tendermint/proto/tendermint/types"
)

type vLedger struct{ bal map[string]sdk.Coins }

func (l *vLedger) get(a sdk.AccAddress) sdk.Coins { return l.bal[a.String()] }
func (l *vLedger) move(from, to sdk.AccAddress, amt sdk.Coins) error {
	if !amt.IsValid() {
		return fmt.Errorf("invalid coins %s", amt)
	}
	nb, neg := l.get(from).SafeSub(amt)
	if neg {
		return fmt.Errorf("insufficient funds: %s < %s", l.get(from), amt)
	}
	l.bal[from.String()] = nb
	l.bal[to.String()] = l.get(to).Add(amt...)
	return nil
}
func (l *vLedger) SpendableCoins(_ sdk.Context, a sdk.AccAddress) sdk.Coins { return l.get(a) }
func (l *vLedger) SendCoinsFromModuleToModule(_ sdk.Context, s, r string, amt sdk.Coins) error {
	return l.move(authtypes.NewModuleAddress(s), authtypes.NewModuleAddress(r), amt)
}
func (l *vLedger) SendCoinsFromAccountToModule(_ sdk.Context, s sdk.AccAddress, r string, amt sdk.Coins) error {
	return l.move(s, authtypes.NewModuleAddress(r), amt)
}
func (l *vLedger) SendCoinsFromModuleToAccount(_ sdk.Context, s string, r sdk.AccAddress, amt sdk.Coins) error {
	return l.move(authtypes.NewModuleAddress(s), r, amt)
}
func (l *vLedger) SendCoins(_ sdk.Context, f, t sdk.AccAddress, amt sdk.Coins) error { return l.move(f, t, amt) }
func (l *vLedger) MintCoins(_ sdk.Context, m string, amt sdk.Coins) error {
	a := authtypes.NewModuleAddress(m)
	l.bal[a.String()] = l.get(a).Add(amt...)
	return nil
}
func (l *vLedger) BurnCoins(_ sdk.Context, m string, amt sdk.Coins) error { return nil }
func (l *vLedger) GetBalance(_ sdk.Context, a sdk.AccAddress, d string) sdk.Coin {
	return sdk.NewCoin(d, l.get(a).AmountOf(d))
}
func (l *vLedger) GetAllBalances(_ sdk.Context, a sdk.AccAddress) sdk.Coins { return l.get(a) }

func vSetup(t *testing.T) (*keeper.Keeper, *vLedger, sdk.Context) {
	key := sdk.NewKVStoreKey(types.StoreKey)
	tkey := sdk.NewTransientStoreKey("transient_test")
	testCtx := canineglobaltestutil.DefaultContextWithDB(t, tkey, key)
	ctx := testCtx.Ctx.WithBlockHeader(tmproto.Header{Height: 10})
	encCfg := moduletestutil.MakeTestEncodingConfig()
	types.RegisterInterfaces(encCfg.InterfaceRegistry)
	_ = baseapp.NewMsgServiceRouter()
	l := &vLedger{bal: map[string]sdk.Coins{}}
	ps := typesparams.NewSubspace(encCfg.Codec, types.Amino, key, tkey, "RNSParams")
	k := keeper.NewKeeper(encCfg.Codec, key, ps, l)
	k.SetParams(ctx, types.DefaultParams())
	return k, l, ctx
}

func vAddr(i int) sdk.AccAddress { return sdk.AccAddress([]byte(fmt.Sprintf("verif-account-%06d", i))) }

func vFund(l *vLedger, a sdk.AccAddress, n int64) {
	l.bal[a.String()] = l.get(a).Add(sdk.NewInt64Coin("ujkl", n))
}

// C16: an expired name re-registered by another account must be live for the paid term.
func TestVerifScenario_C16_expired_reregister(t *testing.T) {
	k, l, ctx := vSetup(t)
	a, b := vAddr(1), vAddr(2)
	vFund(l, a, 1_000_000_000)
	vFund(l, b, 1_000_000_000)
	if err := k.RegisterRNSName(ctx, a.String(), "verifname.jkl", "{}", 1, false); err != nil {
		fmt.Println("SCENARIO-ERROR first registration failed:", err)
		return
	}
	late := ctx.WithBlockHeight(20_000_000)
	if err := k.RegisterRNSName(late, b.String(), "verifname.jkl", "{}", 1, false); err != nil {
		fmt.Println("SCENARIO-OK re-registration of the expired name was refused:", err)
		return
	}
	n, found := k.GetNames(late, "verifname", "jkl")
	if !found || n.Value != b.String() || n.Expires < 20_000_000+5484530 {
		fmt.Printf("SCENARIO-VIOLATION name re-registered at height 20000000 for 1 year by %s has Value=%s Expires=%d (< %d): paid for and already expired\n", b, n.Value, n.Expires, 20_000_000+5484530)
		return
	}
	fmt.Printf("SCENARIO-OK Expires=%d\n", n.Expires)
}

// C16: the price of Y years is Y times the yearly price -- also for year counts whose int64 product wraps.
// 10_000_000 (yearly price of a 5+ letter .jkl name) * 649402867719685797 = 128 (mod 2^64), and
// 649402867719685797 * 5484530 wraps to a positive term of about 9.05e18 blocks.
func TestVerifScenario_C16_year_count_wraps(t *testing.T) {
	k, l, ctx := vSetup(t)
	a := vAddr(1)
	vFund(l, a, 1_000)
	const years = int64(649402867719685797)
	msg := types.MsgRegister{Creator: a.String(), Name: "wrapped.jkl", Years: years, Data: "{}"}
	if err := msg.ValidateBasic(); err != nil {
		fmt.Println("SCENARIO-OK stateless validation refuses the year count:", err)
		return
	}
	before := l.get(a).AmountOf("ujkl")
	var err error
	func() {
		defer func() {
			if r := recover(); r != nil {
				err = fmt.Errorf("panic: %v", r)
			}
		}()
		err = k.RegisterRNSName(ctx, a.String(), "wrapped.jkl", "{}", years, false)
	}()
	if err != nil {
		fmt.Println("SCENARIO-OK registration for a year count whose price does not fit is refused:", err)
		return
	}
	paid := before.Sub(l.get(a).AmountOf("ujkl"))
	n, _ := k.GetNames(ctx, "wrapped", "jkl")
	fmt.Printf("SCENARIO-VIOLATION an account holding 1000ujkl registered wrapped.jkl for %d years (accepted by ValidateBasic): debited %sujkl instead of %d x 10000000ujkl, name expires at block %d\n", years, paid, years, n.Expires)
}

// C08: a listing created by a previous owner must not sell the name of the current owner.
func TestVerifScenario_C08_stale_listing(t *testing.T) {
	k, l, ctx := vSetup(t)
	ms := keeper.NewMsgServerImpl(*k)
	a, b, c := vAddr(1), vAddr(2), vAddr(3)
	for _, x := range []sdk.AccAddress{a, b, c} {
		vFund(l, x, 1_000_000_000)
	}
	if err := k.RegisterRNSName(ctx, a.String(), "stale.jkl", "{}", 1, false); err != nil {
		fmt.Println("SCENARIO-ERROR", err)
		return
	}
	if _, err := ms.List(sdk.WrapSDKContext(ctx), &types.MsgList{Creator: a.String(), Name: "stale.jkl", Price: sdk.NewInt64Coin("ujkl", 5000)}); err != nil {
		fmt.Println("SCENARIO-ERROR list:", err)
		return
	}
	if err := k.TransferName(ctx, a.String(), b.String(), "stale.jkl"); err != nil {
		fmt.Println("SCENARIO-ERROR transfer:", err)
		return
	}
	beforeA, beforeB := l.get(a).AmountOf("ujkl"), l.get(b).AmountOf("ujkl")
	err := k.BuyName(ctx, c.String(), "stale.jkl")
	n, _ := k.GetNames(ctx, "stale", "jkl")
	if err == nil && n.Value == c.String() {
		fmt.Printf("SCENARIO-VIOLATION B owned the name and never listed it; C bought it through A's stale listing: A received %s, B received %s and lost the name\n",
			l.get(a).AmountOf("ujkl").Sub(beforeA), l.get(b).AmountOf("ujkl").Sub(beforeB))
		return
	}
	fmt.Println("SCENARIO-OK purchase through the stale listing refused:", err, "owner:", n.Value)
}

// C09: a second bid by the same account on the same name must not strand the first escrow.
func TestVerifScenario_C09_bid_overwrite(t *testing.T) {
	k, l, ctx := vSetup(t)
	a := vAddr(1)
	vFund(l, a, 1000)
	mod := authtypes.NewModuleAddress(types.ModuleName)
	if err := k.AddBid(ctx, a.String(), "anything.jkl", "100ujkl"); err != nil {
		fmt.Println("SCENARIO-ERROR", err)
		return
	}
	if err := k.AddBid(ctx, a.String(), "anything.jkl", "7ujkl"); err != nil {
		fmt.Println("SCENARIO-ERROR", err)
		return
	}
	escrow := l.get(mod).AmountOf("ujkl").Int64()
	if err := k.CancelOneBid(ctx, a.String(), "anything.jkl"); err != nil {
		fmt.Println("SCENARIO-ERROR", err)
		return
	}
	back := l.get(a).AmountOf("ujkl").Int64()
	left := l.get(mod).AmountOf("ujkl").Int64()
	if escrow != 7 || back != 1000 || left != 0 {
		fmt.Printf("SCENARIO-VIOLATION bids of 100 then 7 left %d in escrow for a single open bid of 7; after cancelling the bidder holds %d of its 1000 and %d stays in the module account\n", escrow, back, left)
		return
	}
	fmt.Println("SCENARIO-OK escrow equals the open bid and the bidder was made whole")
}

var _ = jkltypes.Bech32Prefix

// C19: exporting and importing must preserve the primary-name table.
func TestVerifScenario_C19_primary_names_not_in_genesis(t *testing.T) {
	k, _, ctx := vSetup(t)
	owner := vAddr(1)
	k.SetNames(ctx, types.Names{Name: "alice", Tld: "jkl", Value: owner.String(), Expires: 9_000_000, Data: "{}"})
	k.SetPrimaryName(ctx, owner.String(), "alice", "jkl")
	exported := rnsmodule.ExportGenesis(ctx, *k)
	k2, _, ctx2 := vSetup(t)
	rnsmodule.InitGenesis(ctx2, *k2, *exported)
	_, hadPrimary := k.GetPrimaryName(ctx, owner.String())
	_, hasPrimary := k2.GetPrimaryName(ctx2, owner.String())
	_, hasName := k2.GetNames(ctx2, "alice", "jkl")
	if hadPrimary && (!hasPrimary || !hasName) {
		fmt.Printf("SCENARIO-VIOLATION the account had a primary name before export; after import the name record exists=%v but the primary name exists=%v (PrimaryName/value/ is neither exported nor imported)\n", hasName, hasPrimary)
		return
	}
	fmt.Printf("SCENARIO-OK primary name before=%v after=%v\n", hadPrimary, hasPrimary)
}
