package keeper_test

// Scenario replays for x/storage (injected with `go test -overlay`; never
// written into the repository). Real keeper, ledger bank that tracks every
// balance including module, gauge and POL accounts.
//   SCENARIO-VIOLATION <what> | SCENARIO-OK <what> | SCENARIO-ERROR <why>

import (
	"fmt"
	"math"
	"strings"
	"testing"
	"time"

	sdk "github.com/cosmos/cosmos-sdk/types"
	authtypes "github.com/cosmos/cosmos-sdk/x/auth/types"
	typesparams "github.com/cosmos/cosmos-sdk/x/params/types"
	canineglobaltestutil "github.com/jackalLabs/canine-chain/v4/testutil"
	jkltypes "github.com/jackalLabs/canine-chain/v4/types"
	moduletestutil "github.com/jackalLabs/canine-chain/v4/types/module/testutil"
	oracletypes "github.com/jackalLabs/canine-chain/v4/x/oracle/types"
	storagemodule "github.com/jackalLabs/canine-chain/v4/x/storage"
	"github.com/jackalLabs/canine-chain/v4/x/storage/keeper"
	types "github.com/jackalLabs/canine-chain/v4/x/storage/types"
	tmproto "github.com/tendermint/tendermint/proto/tendermint/types"
)

type sLedger struct{ bal map[string]sdk.Coins }

func (l *sLedger) get(a sdk.AccAddress) sdk.Coins { return l.bal[a.String()] }
func (l *sLedger) move(from, to sdk.AccAddress, amt sdk.Coins) error {
	if !amt.IsValid() {
		return fmt.Errorf("invalid coins %s", amt)
	}
	nb, neg := l.get(from).SafeSub(amt)
	if neg {
		return fmt.Errorf("insufficient funds: %s < %s", l.get(from), amt)
	}
	l.bal[from.String()] = nb
	l.bal[to.String()] = l.get(to).Add(amt...)
	return nil
}
func (l *sLedger) SpendableCoins(_ sdk.Context, a sdk.AccAddress) sdk.Coins { return l.get(a) }
func (l *sLedger) SendCoinsFromModuleToModule(_ sdk.Context, s, r string, amt sdk.Coins) error {
	return l.move(authtypes.NewModuleAddress(s), authtypes.NewModuleAddress(r), amt)
}
func (l *sLedger) SendCoinsFromAccountToModule(_ sdk.Context, s sdk.AccAddress, r string, amt sdk.Coins) error {
	return l.move(s, authtypes.NewModuleAddress(r), amt)
}
func (l *sLedger) SendCoinsFromModuleToAccount(_ sdk.Context, s string, r sdk.AccAddress, amt sdk.Coins) error {
	return l.move(authtypes.NewModuleAddress(s), r, amt)
}
func (l *sLedger) MintCoins(_ sdk.Context, m string, amt sdk.Coins) error {
	a := authtypes.NewModuleAddress(m)
	l.bal[a.String()] = l.get(a).Add(amt...)
	return nil
}
func (l *sLedger) BurnCoins(_ sdk.Context, m string, amt sdk.Coins) error { return nil }
func (l *sLedger) GetBalance(_ sdk.Context, a sdk.AccAddress, d string) sdk.Coin {
	return sdk.NewCoin(d, l.get(a).AmountOf(d))
}
func (l *sLedger) GetAllBalances(_ sdk.Context, a sdk.AccAddress) sdk.Coins { return l.get(a) }

type sAccounts struct{}

func (sAccounts) GetAccount(_ sdk.Context, a sdk.AccAddress) authtypes.AccountI { return authtypes.NewBaseAccountWithAddress(a) }
func (sAccounts) GetModuleAddress(m string) sdk.AccAddress                      { return authtypes.NewModuleAddress(m) }
func (sAccounts) HasAccount(sdk.Context, sdk.AccAddress) bool                   { return true }
func (sAccounts) SetAccount(sdk.Context, authtypes.AccountI)                    {}
func (sAccounts) NewAccountWithAddress(_ sdk.Context, a sdk.AccAddress) authtypes.AccountI {
	return authtypes.NewBaseAccountWithAddress(a)
}

type sOracle struct{}

func (sOracle) GetFeed(sdk.Context, string) (oracletypes.Feed, bool) {
	return oracletypes.Feed{Data: `{"price":"0.24","24h_change":"0"}`, Name: "jklprice"}, true
}

type sRns struct{}

func (sRns) Resolve(_ sdk.Context, name string) (sdk.AccAddress, error) {
	if len(name) == 0 {
		return nil, fmt.Errorf("empty")
	}
	return sdk.AccAddressFromBech32(name)
}

func sSetup(t *testing.T) (*keeper.Keeper, *sLedger, sdk.Context) {
	sdk.GetConfig().SetBech32PrefixForAccount("jkl", "jklpub")
	key := sdk.NewKVStoreKey(types.StoreKey)
	tkey := sdk.NewTransientStoreKey("transient_test")
	testCtx := canineglobaltestutil.DefaultContextWithDB(t, tkey, key)
	ctx := testCtx.Ctx.WithBlockHeader(tmproto.Header{Height: 10, Time: time.Unix(1_700_000_000, 0).UTC()})
	encCfg := moduletestutil.MakeTestEncodingConfig()
	types.RegisterInterfaces(encCfg.InterfaceRegistry)
	l := &sLedger{bal: map[string]sdk.Coins{}}
	ps := typesparams.NewSubspace(encCfg.Codec, types.Amino, key, tkey, "StorageParams")
	k := keeper.NewKeeper(encCfg.Codec, key, ps, l, sAccounts{}, sOracle{}, sRns{}, authtypes.FeeCollectorName)
	k.SetParams(ctx, types.DefaultParams())
	return k, l, ctx
}

func sAddr(i int) sdk.AccAddress { return sdk.AccAddress([]byte(fmt.Sprintf("verif-account-%06d", i))) }

func sFund(l *sLedger, a sdk.AccAddress, n int64) {
	l.bal[a.String()] = l.get(a).Add(sdk.NewInt64Coin("ujkl", n))
}

// C04: a referred purchase must credit the referrer its commission (ReferralCommission %), not the POL bundle.
func TestVerifScenario_C04_referrer_bundle(t *testing.T) {
	k, l, ctx := sSetup(t)
	ms := keeper.NewMsgServerImpl(*k)
	buyer, ref := sAddr(1), sAddr(2)
	sFund(l, buyer, 1_000_000_000_000)
	params := k.GetParams(ctx)
	_, err := ms.BuyStorage(sdk.WrapSDKContext(ctx), &types.MsgBuyStorage{Creator: buyer.String(), ForAddress: buyer.String(), DurationDays: 30, Bytes: 3_000_000_000, PaymentDenom: "ujkl", Referral: ref.String()})
	if err != nil {
		fmt.Println("SCENARIO-ERROR", err)
		return
	}
	paid := sdk.NewInt(1_000_000_000_000).Sub(l.get(buyer).AmountOf("ujkl"))
	got := l.get(ref).AmountOf("ujkl")
	want := paid.ToDec().Mul(sdk.NewDec(params.ReferralCommission).QuoInt64(100)).TruncateInt()
	diff := got.Sub(want).Abs()
	if diff.GT(sdk.OneInt()) {
		fmt.Printf("SCENARIO-VIOLATION buyer paid %s with ReferralCommission=%d%% PolRatio=%d%%: referrer received %s instead of %s\n", paid, params.ReferralCommission, params.PolRatio, got, want)
		return
	}
	fmt.Printf("SCENARIO-OK paid %s referrer received %s (commission %d%%)\n", paid, got, params.ReferralCommission)
}

// C04: a payer that names itself as the referrer is not a "distinct valid referrer": no discount, and the commission goes to
// the stakers' fee pool. bech32 accepts the upper-case spelling of an address, so the payer can sign as one spelling and
// name the other.
func TestVerifScenario_C04_self_referral_by_spelling(t *testing.T) {
	k, l, ctx := sSetup(t)
	ms := keeper.NewMsgServerImpl(*k)
	buyer, other := sAddr(1), sAddr(2)
	sFund(l, buyer, 1_000_000_000_000)
	sFund(l, other, 1_000_000_000_000)
	// reference: the same purchase by another account with no referral
	if _, err := ms.BuyStorage(sdk.WrapSDKContext(ctx), &types.MsgBuyStorage{Creator: other.String(), ForAddress: other.String(), DurationDays: 30, Bytes: 3_000_000_000, PaymentDenom: "ujkl", Referral: ""}); err != nil {
		fmt.Println("SCENARIO-ERROR", err)
		return
	}
	full := sdk.NewInt(1_000_000_000_000).Sub(l.get(other).AmountOf("ujkl"))
	msg := &types.MsgBuyStorage{Creator: strings.ToUpper(buyer.String()), ForAddress: buyer.String(), DurationDays: 30, Bytes: 3_000_000_000, PaymentDenom: "ujkl", Referral: buyer.String()}
	if err := msg.ValidateBasic(); err != nil {
		fmt.Println("SCENARIO-OK upper-case spelling refused by ValidateBasic:", err)
		return
	}
	if sg := msg.GetSigners(); len(sg) != 1 || !sg[0].Equals(buyer) {
		fmt.Println("SCENARIO-ERROR the upper-case spelling does not name the buyer's account")
		return
	}
	if _, err := ms.BuyStorage(sdk.WrapSDKContext(ctx), msg); err != nil {
		fmt.Println("SCENARIO-OK", err)
		return
	}
	net := sdk.NewInt(1_000_000_000_000).Sub(l.get(buyer).AmountOf("ujkl"))
	if !net.Equal(full) {
		fmt.Printf("SCENARIO-VIOLATION account %s, signing as %s and naming itself (%s) as referrer, is out of pocket %s for a purchase priced %s (discount and commission paid to itself)\n", buyer, msg.Creator, msg.Referral, net, full)
		return
	}
	fmt.Printf("SCENARIO-OK a self-referral under another spelling pays the full price %s\n", full)
}

// C05/C07: stateless validation must reject sizes that make block processing panic or usage negative.
func TestVerifScenario_C05_postfile_sizes_unchecked(t *testing.T) {
	_, _, _ = sSetup(t)
	a := sAddr(1)
	bad := [][2]int64{{0, 1}, {-5, 3}, {1, 0}, {1 << 40, 1 << 40}}
	for _, c := range bad {
		m := types.MsgPostFile{Creator: a.String(), Merkle: []byte("m"), FileSize: c[0], MaxProofs: c[1], ProofType: 0, Note: "{}"}
		if err := m.ValidateBasic(); err == nil {
			fmt.Printf("SCENARIO-VIOLATION MsgPostFile{FileSize: %d, MaxProofs: %d} passes ValidateBasic\n", c[0], c[1])
			return
		}
	}
	fmt.Println("SCENARIO-OK zero, negative and overflowing sizes are rejected by ValidateBasic")
}

// C05: a stored file of size 0 with one prover makes the reward block divide by zero inside BeginBlock.
func TestVerifScenario_C05_reward_block_division_by_zero(t *testing.T) {
	k, _, ctx := sSetup(t)
	a, p := sAddr(1), sAddr(2)
	// the state below is reachable only if a file of size 0 can be posted by a valid transaction
	if err := (&types.MsgPostFile{Creator: a.String(), Merkle: []byte("merkle"), FileSize: 0, MaxProofs: 3, ProofType: 0, Note: "{}"}).ValidateBasic(); err != nil {
		fmt.Println("SCENARIO-OK a file of size 0 cannot be posted (ValidateBasic):", err)
		return
	}
	f := types.UnifiedFile{Merkle: []byte("merkle"), Owner: a.String(), Start: 1, Expires: 0, FileSize: 0, ProofInterval: 100, MaxProofs: 3, Note: "{}"}
	late := ctx.WithBlockHeight(k.GetParams(ctx).CheckWindow * 3)
	f.AddProver(late.WithBlockHeight(late.BlockHeight()-1), k, p.String()) // proven one block before the reward block
	defer func() {
		if r := recover(); r != nil {
			fmt.Printf("SCENARIO-VIOLATION RunRewardBlock panics with a stored file of size 0 and one prover: %v\n", r)
		}
	}()
	k.RunRewardBlock(late)
	fmt.Println("SCENARIO-OK reward block completed")
}

// C04: a one-time-payment post is priced for the time until its expiry height -- also when (Expires-height)*6 seconds
// does not fit an int64. (2^64+172802)/6 blocks wrap to 172802 seconds, i.e. two days.
func TestVerifScenario_C04_pay_once_duration_wraps(t *testing.T) {
	k, l, ctx := sSetup(t)
	ms := keeper.NewMsgServerImpl(*k)
	a := sAddr(1)
	sFund(l, a, 1_000_000_000_000)
	price := func(m string, expires int64) (sdk.Int, error) {
		msg := &types.MsgPostFile{Creator: a.String(), Merkle: []byte(m), FileSize: 1_000_000_000, MaxProofs: 3, ProofType: 0, Note: "{}", Expires: expires}
		if err := msg.ValidateBasic(); err != nil {
			return sdk.Int{}, err
		}
		before := l.get(a).AmountOf("ujkl")
		_, err := ms.PostFile(sdk.WrapSDKContext(ctx), msg)
		return before.Sub(l.get(a).AmountOf("ujkl")), err
	}
	h := ctx.BlockHeight()
	twoDays, err := price("two-days", h+2*14400)
	if err != nil {
		fmt.Println("SCENARIO-ERROR", err)
		return
	}
	year, err := price("one-year", h+365*14400)
	if err != nil {
		fmt.Println("SCENARIO-ERROR", err)
		return
	}
	const far = int64(3074457345618287403) // (2^64 + 172802) / 6
	forever, err := price("forever", h+far)
	if err != nil {
		fmt.Println("SCENARIO-OK a post whose duration does not fit is refused:", err)
		return
	}
	f, _ := k.GetFile(ctx, []byte("forever"), a.String(), h)
	if forever.LT(year) {
		fmt.Printf("SCENARIO-VIOLATION 3 GB posted until block %d (about 5.8e11 years away) was accepted and debited %sujkl: the price of two days (%sujkl), while one year costs %sujkl\n", f.Expires, forever, twoDays, year)
		return
	}
	fmt.Printf("SCENARIO-OK far expiry priced %s (one year: %s)\n", forever, year)
}

// The machine-range obligations of PostFile: the plan usage sum and the pay-once duration.
func TestVerifScenario_PostFile_machine_range(t *testing.T) {
	TestVerifScenario_C07_plan_usage_wraps(t)
	TestVerifScenario_C04_pay_once_duration_wraps(t)
}

func sPlan(k *keeper.Keeper, ctx sdk.Context, a sdk.AccAddress, space int64) {
	k.SetStoragePaymentInfo(ctx, types.StoragePaymentInfo{Start: ctx.BlockTime(), End: ctx.BlockTime().Add(time.Hour * 24 * 60), SpaceAvailable: space, SpaceUsed: 0, Address: a.String()})
}

// C05/C07: a plan-paid post whose footprint does not fit the plan must be refused even when used + footprint does not
// fit an int64 (FileSize*MaxProofs may be as large as MaxInt64 and still pass ValidateBasic).
func TestVerifScenario_C07_plan_usage_wraps(t *testing.T) {
	k, _, ctx := sSetup(t)
	ms := keeper.NewMsgServerImpl(*k)
	a := sAddr(1)
	sPlan(k, ctx, a, 1_000_000_000)
	post := func(m string, size int64) error {
		msg := &types.MsgPostFile{Creator: a.String(), Merkle: []byte(m), FileSize: size, MaxProofs: 1, ProofType: 0, Note: "{}"}
		if err := msg.ValidateBasic(); err != nil {
			return err
		}
		_, err := ms.PostFile(sdk.WrapSDKContext(ctx), msg)
		return err
	}
	if err := post("small", 1); err != nil {
		fmt.Println("SCENARIO-ERROR", err)
		return
	}
	if err := post("big", math.MaxInt64); err != nil {
		fmt.Println("SCENARIO-OK a post of MaxInt64 bytes into a 1 GB plan is refused:", err)
		return
	}
	pi, _ := k.GetStoragePaymentInfo(ctx, a.String())
	fmt.Printf("SCENARIO-VIOLATION a post of %d bytes into a plan of %d bytes with 1 byte used was accepted; the plan now reports %d bytes used\n", int64(math.MaxInt64), pi.SpaceAvailable, pi.SpaceUsed)
}

// C07: deleting a plan-paid file must return its footprint to the plan.
func TestVerifScenario_C07_delete_returns_space(t *testing.T) {
	k, _, ctx := sSetup(t)
	ms := keeper.NewMsgServerImpl(*k)
	a := sAddr(1)
	sPlan(k, ctx, a, 10_000_000_000)
	if _, err := ms.PostFile(sdk.WrapSDKContext(ctx), &types.MsgPostFile{Creator: a.String(), Merkle: []byte("merkle-1"), FileSize: 1000, MaxProofs: 3, Note: "{}"}); err != nil {
		fmt.Println("SCENARIO-ERROR post:", err)
		return
	}
	p1, _ := k.GetStoragePaymentInfo(ctx, a.String())
	if _, err := ms.DeleteFile(sdk.WrapSDKContext(ctx), &types.MsgDeleteFile{Creator: a.String(), Merkle: []byte("merkle-1"), Start: ctx.BlockHeight()}); err != nil {
		fmt.Println("SCENARIO-ERROR delete:", err)
		return
	}
	_, still := k.GetFile(ctx, []byte("merkle-1"), a.String(), ctx.BlockHeight())
	p2, _ := k.GetStoragePaymentInfo(ctx, a.String())
	if still || p2.SpaceUsed != 0 {
		fmt.Printf("SCENARIO-VIOLATION after posting (used=%d) and deleting its only file the account still reports %d bytes used (file present: %v)\n", p1.SpaceUsed, p2.SpaceUsed, still)
		return
	}
	fmt.Println("SCENARIO-OK footprint returned on delete")
}

// C07: re-posting the same (merkle, owner) in the same block must not count the footprint twice.
func TestVerifScenario_C07_same_block_repost(t *testing.T) {
	k, _, ctx := sSetup(t)
	ms := keeper.NewMsgServerImpl(*k)
	a := sAddr(1)
	sPlan(k, ctx, a, 10_000_000_000)
	for i := 0; i < 2; i++ {
		if _, err := ms.PostFile(sdk.WrapSDKContext(ctx), &types.MsgPostFile{Creator: a.String(), Merkle: []byte("merkle-1"), FileSize: 1000, MaxProofs: 3, Note: "{}"}); err != nil {
			fmt.Println("SCENARIO-ERROR post:", err)
			return
		}
	}
	n := len(k.GetAllFileByMerkle(ctx))
	p, _ := k.GetStoragePaymentInfo(ctx, a.String())
	if p.SpaceUsed != int64(n)*3000 {
		fmt.Printf("SCENARIO-VIOLATION the account holds %d file(s) of footprint 3000 but reports %d bytes used\n", n, p.SpaceUsed)
		return
	}
	fmt.Println("SCENARIO-OK usage equals footprint")
}

// C03: every listed prover is examined exactly once per reward block: a removal must not make the walk skip or repeat a prover.
func TestVerifScenario_C03_walk_over_list_being_edited(t *testing.T) {
	k, l, ctx := sSetup(t)
	owner, a, b, c := sAddr(1), sAddr(2), sAddr(3), sAddr(4)
	late := ctx.WithBlockHeight(k.GetParams(ctx).CheckWindow * 3)
	f := types.UnifiedFile{Merkle: []byte("merkle"), Owner: owner.String(), Start: 1, Expires: 0, FileSize: 1000, ProofInterval: 100, MaxProofs: 3, Note: "{}"}
	f.AddProver(ctx, k, a.String())                                        // A last proved at height 10: misses the window
	f.AddProver(late.WithBlockHeight(late.BlockHeight()-1), k, b.String()) // B and C proved one block before the reward block
	f.AddProver(late.WithBlockHeight(late.BlockHeight()-1), k, c.String())
	for _, p := range []sdk.AccAddress{a, b, c} {
		k.SetProviders(ctx, types.Providers{Address: p.String(), Ip: "https://p.example.com", Totalspace: "1000000", BurnedContracts: "0", Creator: p.String()})
	}
	// one gauge that releases 3000 at the reward time
	coins := sdk.NewCoins(sdk.NewInt64Coin("ujkl", 6000))
	start := late.BlockTime().Add(-time.Hour)
	g := k.NewGauge(ctx.WithBlockTime(start), coins, late.BlockTime().Add(time.Hour))
	acc, _ := types.GetGaugeAccount(g)
	l.bal[acc.String()] = coins
	k.RunRewardBlock(late)
	got := func(x sdk.AccAddress) int64 { return l.get(x).AmountOf("ujkl").Int64() }
	file, _ := k.GetFile(late, []byte("merkle"), owner.String(), 1)
	if got(b) != got(c) || got(a) != 0 || len(file.Proofs) != 2 {
		fmt.Printf("SCENARIO-VIOLATION list [A,B,C], A missed its window, B and C proved: rewards A=%d B=%d C=%d (B and C must be equal), provers left on the file: %d (must be 2)\n", got(a), got(b), got(c), len(file.Proofs))
		return
	}
	fmt.Printf("SCENARIO-OK A=%d B=%d C=%d provers left %d\n", got(a), got(b), got(c), len(file.Proofs))
}

// C12: two purchases in one block with equal end and amount must not share one gauge record for two deposits.
func TestVerifScenario_C12_same_block_gauges_collide(t *testing.T) {
	k, l, ctx := sSetup(t)
	ms := keeper.NewMsgServerImpl(*k)
	a, b := sAddr(1), sAddr(2)
	sFund(l, a, 1_000_000_000_000)
	sFund(l, b, 1_000_000_000_000)
	for _, who := range []sdk.AccAddress{a, b} {
		if _, err := ms.BuyStorage(sdk.WrapSDKContext(ctx), &types.MsgBuyStorage{Creator: who.String(), ForAddress: who.String(), DurationDays: 30, Bytes: 3_000_000_000, PaymentDenom: "ujkl"}); err != nil {
			fmt.Println("SCENARIO-ERROR", err)
			return
		}
	}
	gs := k.GetAllPaymentGauges(ctx)
	for _, g := range gs {
		acc, _ := types.GetGaugeAccount(g)
		held := l.get(acc).AmountOf("ujkl")
		if held.GT(g.Coins.AmountOf("ujkl")) {
			fmt.Printf("SCENARIO-VIOLATION two purchases in one block: %d gauge record(s); gauge account holds %s but its record says %s was deposited (the first reward block releases the surplus at once)\n", len(gs), held, g.Coins.AmountOf("ujkl"))
			return
		}
	}
	fmt.Printf("SCENARIO-OK %d gauge record(s), every escrow within its record\n", len(gs))
}

var _ = jkltypes.Bech32Prefix

// C01: a submission whose proof does not verify must change nothing: the sender must not become a listed prover,
// and must not be paid at the next reward block.
func TestVerifScenario_C01_rejected_proof_registers_prover(t *testing.T) {
	k, l, ctx := sSetup(t)
	cw := k.GetParams(ctx).CheckWindow
	ctx = ctx.WithBlockHeight(cw - 1) // the block before a reward block
	owner, honest, cheat := sAddr(1), sAddr(2), sAddr(3)
	f := types.UnifiedFile{Merkle: []byte("merkle-root-of-a-file-nobody-gave-the-cheat"), Owner: owner.String(), Start: cw - 5, Expires: 0, FileSize: 5000, ProofInterval: 100, MaxProofs: 3, Note: "{}"}
	k.SetFile(ctx, f)
	for _, p := range []sdk.AccAddress{honest, cheat} {
		k.SetProviders(ctx, types.Providers{Address: p.String(), Ip: "https://p.example.com", Totalspace: "1000000", BurnedContracts: "0", Creator: p.String()})
	}
	srv := keeper.NewMsgServerImpl(*k)
	res, err := srv.PostProof(sdk.WrapSDKContext(ctx), &types.MsgPostProof{Creator: cheat.String(), Item: []byte("garbage"), HashList: []byte("not a proof"), Merkle: f.Merkle, Owner: f.Owner, Start: f.Start, ToProve: 0})
	if err != nil || res.Success {
		fmt.Printf("SCENARIO-ERROR the garbage proof was expected to be rejected through the response: err=%v res=%v\n", err, res)
		return
	}
	after, _ := k.GetFile(ctx, f.Merkle, f.Owner, f.Start)
	_, hasRecord := k.GetProof(ctx, cheat.String(), f.Merkle, f.Owner, f.Start)
	// the reward block one block later (the file is still young, so every listed prover is credited)
	coins := sdk.NewCoins(sdk.NewInt64Coin("ujkl", 6000))
	g := k.NewGauge(ctx.WithBlockTime(ctx.BlockTime().Add(-time.Hour)), coins, ctx.BlockTime().Add(time.Hour))
	acc, _ := types.GetGaugeAccount(g)
	l.bal[acc.String()] = coins
	k.RunRewardBlock(ctx.WithBlockHeight(cw))
	paid := l.get(cheat).AmountOf("ujkl").Int64()
	if len(after.Proofs) != 0 || hasRecord || paid != 0 {
		fmt.Printf("SCENARIO-VIOLATION PostProof answered Success=false (%q) yet the sender is listed on the file (provers=%d), has a proof record (%v) and was paid %dujkl at the next reward block\n", res.ErrorMessage, len(after.Proofs), hasRecord, paid)
		return
	}
	fmt.Println("SCENARIO-OK a rejected submission left the file, the proof table and the balances alone")
}

// C19: exporting the module state and importing it into a fresh store must preserve the proof records.
func TestVerifScenario_C19_proof_records_not_in_genesis(t *testing.T) {
	k, _, ctx := sSetup(t)
	owner, prover := sAddr(1), sAddr(2)
	f := types.UnifiedFile{Merkle: []byte("merkle"), Owner: owner.String(), Start: 5, Expires: 0, FileSize: 1000, ProofInterval: 100, MaxProofs: 3, Note: "{}"}
	f.AddProver(ctx, k, prover.String())
	exported := storagemodule.ExportGenesis(ctx, *k)
	k2, _, ctx2 := sSetup(t)
	storagemodule.InitGenesis(ctx2, *k2, *exported)
	file, found := k2.GetFile(ctx2, f.Merkle, f.Owner, f.Start)
	_, hasRecord := k2.GetProof(ctx2, prover.String(), f.Merkle, f.Owner, f.Start)
	if !found || len(file.Proofs) != 1 || !hasRecord {
		fmt.Printf("SCENARIO-VIOLATION after export and import the file is found=%v with %d listed prover(s), but the prover's proof record exists=%v (FileProof/value/ is neither exported nor imported)\n", found, len(file.Proofs), hasRecord)
		return
	}
	fmt.Println("SCENARIO-OK proof records survive export and import")
}
