package keeper_test

// Scenario replays for x/storage (injected with `go test -overlay`; never
// written into the repository). Real keeper, ledger bank that tracks every
// balance including module, gauge and POL accounts.
//   SCENARIO-VIOLATION <what> | SCENARIO-OK <what> | SCENARIO-ERROR <why>

import (
	"fmt"
	"testing"
	"time"

	sdk "github.com/cosmos/cosmos-sdk/types"
	authtypes "github.com/cosmos/cosmos-sdk/x/auth/types"
	typesparams "github.com/cosmos/cosmos-sdk/x/params/types"
	canineglobaltestutil "github.com/jackalLabs/canine-chain/v4/testutil"
	jkltypes "github.com/jackalLabs/canine-chain/v4/types"
	moduletestutil "github.com/jackalLabs/canine-chain/v4/types/module/testutil"
	oracletypes "github.com/jackalLabs/canine-chain/v4/x/oracle/types"
	"github.com/jackalLabs/canine-chain/v4/x/storage/keeper"
	types "github.com/jackalLabs/canine-chain/v4/x/storage/types"
	tmproto "github.com/tendermint/tendermint/proto/tendermint/types"
)

type sLedger struct{ bal map[string]sdk.Coins }

func (l *sLedger) get(a sdk.AccAddress) sdk.Coins { return l.bal[a.String()] }
func (l *sLedger) move(from, to sdk.AccAddress, amt sdk.Coins) error {
	if !amt.IsValid() {
		return fmt.Errorf("invalid coins %s", amt)
	}
	nb, neg := l.get(from).SafeSub(amt)
	if neg {
		return fmt.Errorf("insufficient funds: %s < %s", l.get(from), amt)
	}
	l.bal[from.String()] = nb
	l.bal[to.String()] = l.get(to).Add(amt...)
	return nil
}
func (l *sLedger) SpendableCoins(_ sdk.Context, a sdk.AccAddress) sdk.Coins { return l.get(a) }
func (l *sLedger) SendCoinsFromModuleToModule(_ sdk.Context, s, r string, amt sdk.Coins) error {
	return l.move(authtypes.NewModuleAddress(s), authtypes.NewModuleAddress(r), amt)
}
func (l *sLedger) SendCoinsFromAccountToModule(_ sdk.Context, s sdk.AccAddress, r string, amt sdk.Coins) error {
	return l.move(s, authtypes.NewModuleAddress(r), amt)
}
func (l *sLedger) SendCoinsFromModuleToAccount(_ sdk.Context, s string, r sdk.AccAddress, amt sdk.Coins) error {
	return l.move(authtypes.NewModuleAddress(s), r, amt)
}
func (l *sLedger) MintCoins(_ sdk.Context, m string, amt sdk.Coins) error {
	a := authtypes.NewModuleAddress(m)
	l.bal[a.String()] = l.get(a).Add(amt...)
	return nil
}
func (l *sLedger) BurnCoins(_ sdk.Context, m string, amt sdk.Coins) error { return nil }
func (l *sLedger) GetBalance(_ sdk.Context, a sdk.AccAddress, d string) sdk.Coin {
	return sdk.NewCoin(d, l.get(a).AmountOf(d))
}
func (l *sLedger) GetAllBalances(_ sdk.Context, a sdk.AccAddress) sdk.Coins { return l.get(a) }

type sAccounts struct{}

func (sAccounts) GetAccount(_ sdk.Context, a sdk.AccAddress) authtypes.AccountI { return authtypes.NewBaseAccountWithAddress(a) }
func (sAccounts) GetModuleAddress(m string) sdk.AccAddress                      { return authtypes.NewModuleAddress(m) }
func (sAccounts) HasAccount(sdk.Context, sdk.AccAddress) bool                   { return true }
func (sAccounts) SetAccount(sdk.Context, authtypes.AccountI)                    {}
func (sAccounts) NewAccountWithAddress(_ sdk.Context, a sdk.AccAddress) authtypes.AccountI {
	return authtypes.NewBaseAccountWithAddress(a)
}

type sOracle struct{}

func (sOracle) GetFeed(sdk.Context, string) (oracletypes.Feed, bool) {
	return oracletypes.Feed{Data: `{"price":"0.24","24h_change":"0"}`, Name: "jklprice"}, true
}

type sRns struct{}

func (sRns) Resolve(_ sdk.Context, name string) (sdk.AccAddress, error) {
	if len(name) == 0 {
		return nil, fmt.Errorf("empty")
	}
	return sdk.AccAddressFromBech32(name)
}

func sSetup(t *testing.T) (*keeper.Keeper, *sLedger, sdk.Context) {
	sdk.GetConfig().SetBech32PrefixForAccount("jkl", "jklpub")
	key := sdk.NewKVStoreKey(types.StoreKey)
	tkey := sdk.NewTransientStoreKey("transient_test")
	testCtx := canineglobaltestutil.DefaultContextWithDB(t, tkey, key)
	ctx := testCtx.Ctx.WithBlockHeader(tmproto.Header{Height: 10, Time: time.Unix(1_700_000_000, 0).UTC()})
	encCfg := moduletestutil.MakeTestEncodingConfig()
	types.RegisterInterfaces(encCfg.InterfaceRegistry)
	l := &sLedger{bal: map[string]sdk.Coins{}}
	ps := typesparams.NewSubspace(encCfg.Codec, types.Amino, key, tkey, "StorageParams")
	k := keeper.NewKeeper(encCfg.Codec, key, ps, l, sAccounts{}, sOracle{}, sRns{}, authtypes.FeeCollectorName)
	k.SetParams(ctx, types.DefaultParams())
	return k, l, ctx
}

func sAddr(i int) sdk.AccAddress { return sdk.AccAddress([]byte(fmt.Sprintf("verif-account-%06d", i))) }

func sFund(l *sLedger, a sdk.AccAddress, n int64) {
	l.bal[a.String()] = l.get(a).Add(sdk.NewInt64Coin("ujkl", n))
}

// C04: a referred purchase must credit the referrer its commission (ReferralCommission %), not the POL bundle.
func TestVerifScenario_C04_referrer_bundle(t *testing.T) {
	k, l, ctx := sSetup(t)
	ms := keeper.NewMsgServerImpl(*k)
	buyer, ref := sAddr(1), sAddr(2)
	sFund(l, buyer, 1_000_000_000_000)
	params := k.GetParams(ctx)
	_, err := ms.BuyStorage(sdk.WrapSDKContext(ctx), &types.MsgBuyStorage{Creator: buyer.String(), ForAddress: buyer.String(), DurationDays: 30, Bytes: 3_000_000_000, PaymentDenom: "ujkl", Referral: ref.String()})
	if err != nil {
		fmt.Println("SCENARIO-ERROR", err)
		return
	}
	paid := sdk.NewInt(1_000_000_000_000).Sub(l.get(buyer).AmountOf("ujkl"))
	got := l.get(ref).AmountOf("ujkl")
	want := paid.ToDec().Mul(sdk.NewDec(params.ReferralCommission).QuoInt64(100)).TruncateInt()
	diff := got.Sub(want).Abs()
	if diff.GT(sdk.OneInt()) {
		fmt.Printf("SCENARIO-VIOLATION buyer paid %s with ReferralCommission=%d%% PolRatio=%d%%: referrer received %s instead of %s\n", paid, params.ReferralCommission, params.PolRatio, got, want)
		return
	}
	fmt.Printf("SCENARIO-OK paid %s referrer received %s (commission %d%%)\n", paid, got, params.ReferralCommission)
}

var _ = jkltypes.Bech32Prefix
