; sdk.Dec / sdk.Int as mathematical integers. A Dec is its raw 18-decimal
; fixed-point integer (value * 10^18), exactly as cosmos-sdk v0.45 decimal.go
; stores it. Rounding follows chopPrecisionAndRound (banker's rounding of the
; absolute value, sign restored) and big.Int.Quo (truncation toward zero).
(define-fun P18 () Int 1000000000000000000)
(define-fun bankers ((x Int) (d Int)) Int
  (let ((q (div x d)) (r (mod x d)))
    (ite (< (* 2 r) d) q (ite (> (* 2 r) d) (+ q 1) (ite (= (mod q 2) 0) q (+ q 1))))))
(define-fun bankers_s ((x Int) (d Int)) Int (ite (>= x 0) (bankers x d) (- (bankers (- x) d))))
(define-fun dec_mul ((a Int) (b Int)) Int (bankers_s (* a b) P18))
(define-fun dec_quo ((a Int) (b Int)) Int (bankers_s (tquo (* (* a P18) P18) b) P18))
(define-fun dec_trunc ((a Int)) Int (tquo a P18))
(define-fun dec_bits_ok ((a Int)) Bool (and (< a 66749594872528440074844428317798503581334516323645399060845050244444366430645017188217565216768) (> a (- 66749594872528440074844428317798503581334516323645399060845050244444366430645017188217565216768))))
(define-fun int_bits_ok ((a Int)) Bool (and (< a 115792089237316195423570985008687907853269984665640564039457584007913129639936) (> a (- 115792089237316195423570985008687907853269984665640564039457584007913129639936))))
(define-fun is_int64 ((a Int)) Bool (and (<= (- 9223372036854775808) a) (<= a 9223372036854775807)))
(declare-fun dec_parse (Str) Int)
