; requires: dec
; sign facts about the decimal operations, for functions that hide their definitions (`opaque dec_quo dec_mul dec_trunc`);
; each is discharged from the definitions as a lemma obligation of its own (x/storage/keeper.decimal_operations_keep_signs)
(assert (forall ((a Int) (b Int)) (! (=> (and (>= a 0) (> b 0)) (>= (dec_quo a b) 0)) :pattern ((dec_quo a b)))))
(assert (forall ((a Int) (b Int)) (! (=> (and (>= a 0) (>= b 0)) (>= (dec_mul a b) 0)) :pattern ((dec_mul a b)))))
(assert (forall ((a Int)) (! (=> (>= a 0) (and (>= (dec_trunc a) 0) (<= (* (dec_trunc a) P18) a))) :pattern ((dec_trunc a)))))
