; requires: strings
; separator-free strings (concrete string mode only)
(define-fun slashfree ((s Str)) Bool (not (str.contains s "/")))
(define-fun dotfree ((s Str)) Bool (not (str.contains s ".")))
