; requires: kv strings sepfree
; x/filetree store layout and hashed identities (concrete string mode only)
(define-fun ft_key ((a Str) (o Str)) Str (str.++ "Files/value/" a "/" o "/"))
; hex(sha256(.)): 64 hex characters, separator-free, collision-free (A-HASH)
(assert (forall ((s Str)) (! (and (= (str.len (hexenc (sha256raw s))) 64) (not (str.contains (hexenc (sha256raw s)) "/"))) :pattern ((hexenc (sha256raw s))))))
(assert (forall ((a Str) (b Str)) (! (=> (= (hexenc (sha256raw a)) (hexenc (sha256raw b))) (= a b)) :pattern ((sha256raw a) (sha256raw b)))))
(define-fun account_hash ((user Str)) Str (hexenc (sha256raw user)))
; owner identity of an entry: H("o" ++ address ++ H(account))
(define-fun owner_id ((addr Str) (acc Str)) Str (hexenc (sha256raw (str.++ "o" addr acc))))
(define-fun viewer_id ((tn Str) (user Str)) Str (hexenc (sha256raw (str.++ "v" tn user))))
(define-fun editor_id ((tn Str) (user Str)) Str (hexenc (sha256raw (str.++ "e" tn user))))
(define-fun is_owner ((f T_filetree_Files) (user Str)) Bool (= (T_filetree_Files_Owner f) (owner_id (T_filetree_Files_Address f) (account_hash user))))
; every stored entry sits under the key of its own (separator-free) address and owner id
(define-fun tree_wf ((kv (Array Str (Option Str)))) Bool
  (forall ((k Str)) (! (=> (and ((_ is some_Str) (select kv k)) (str.prefixof "Files/value/" k))
      (and (= k (ft_key (T_filetree_Files_Address (unmarshal_T_filetree_Files (val_Str (select kv k)))) (T_filetree_Files_Owner (unmarshal_T_filetree_Files (val_Str (select kv k))))))
           (not (str.contains (T_filetree_Files_Address (unmarshal_T_filetree_Files (val_Str (select kv k)))) "/"))
           (not (str.contains (T_filetree_Files_Owner (unmarshal_T_filetree_Files (val_Str (select kv k)))) "/"))))
    :pattern ((select kv k)))))
