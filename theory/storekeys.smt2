; requires: kv strings sepfree
; raw store layout of x/storage (concrete string mode only): full key = table prefix ++ key built by types.<X>Key
; hex rendering (%x of a byte string): separator-free and injective (A-STRINGS)
(assert (forall ((a Str)) (! (slashfree (hexenc a)) :pattern ((hexenc a)))))
(assert (forall ((a Str) (b Str)) (! (=> (= (hexenc a) (hexenc b)) (= a b)) :pattern ((hexenc a) (hexenc b)))))
; decimal rendering (%d): separator-free, non-empty, injective
(assert (forall ((n Int)) (! (and (slashfree (itoa n)) (> (str.len (itoa n)) 0)) :pattern ((itoa n)))))
(assert (forall ((n Int) (m Int)) (! (=> (= (itoa n) (itoa m)) (= n m)) :pattern ((itoa n) (itoa m)))))
(define-fun pkey ((m Str) (o Str) (s Int)) Str (str.++ "FilesByMerkle/value/" (hexenc m) "/" o "/" (itoa s) "/"))
(define-fun skey ((m Str) (o Str) (s Int)) Str (str.++ "FilesByOwner/value/" o "/" (hexenc m) "/" (itoa s) "/"))
(define-fun file_prefix ((k Str)) Bool (or (str.prefixof "FilesByMerkle/value/" k) (str.prefixof "FilesByOwner/value/" k)))
; C17: both indexes hold the same entry for every file identity (owners are bech32 addresses: separator-free)
(define-fun idx_consistent ((kv (Array Str (Option Str)))) Bool
  (forall ((m Str) (o Str) (s Int)) (! (=> (slashfree o) (= (select kv (pkey m o s)) (select kv (skey m o s)))) :pattern ((pkey m o s)) :pattern ((skey m o s)))))
