; requires: bank
; rns resolution as seen through the RnsKeeper interface by other modules (the rns tables do not change inside a
; handler of another module): Resolve(name) succeeds iff rns_resolve_ok(name) and then returns rns_resolve(name)
(declare-fun rns_resolve_ok (Str) Bool)
(declare-fun rns_resolve (Str) Str)
