; requires: storagepay strings
; stored files (handler level): one table keyed by file_key(merkle, owner, start); that the two store indexes
; (by merkle / by owner) always hold the same entries is the accessor-level obligation of C17
(declare-fun file_key (Str Str Int) Str)
(assert (forall ((m Str) (o Str) (s Int) (m2 Str) (o2 Str) (s2 Int)) (! (=> (= (file_key m o s) (file_key m2 o2 s2)) (and (= m m2) (= o o2) (= s s2))) :pattern ((file_key m o s) (file_key m2 o2 s2)))))
(define-fun files_wf ((t (Array Str (Option T_storage_UnifiedFile)))) Bool
  (forall ((k Str)) (! (=> ((_ is some_T_storage_UnifiedFile) (select t k))
     (and (= k (file_key (T_storage_UnifiedFile_Merkle (val_T_storage_UnifiedFile (select t k))) (T_storage_UnifiedFile_Owner (val_T_storage_UnifiedFile (select t k))) (T_storage_UnifiedFile_Start (val_T_storage_UnifiedFile (select t k)))))
          (>= (T_storage_UnifiedFile_FileSize (val_T_storage_UnifiedFile (select t k))) 1) (>= (T_storage_UnifiedFile_MaxProofs (val_T_storage_UnifiedFile (select t k))) 1)
          (>= (T_storage_UnifiedFile_ProofInterval (val_T_storage_UnifiedFile (select t k))) 1)
          (= (off_Slice_Str (T_storage_UnifiedFile_Proofs (val_T_storage_UnifiedFile (select t k)))) 0)))
   :pattern ((select t k)))))
(define-fun payinfo_wf ((t (Array Str (Option T_storage_StoragePaymentInfo)))) Bool
  (forall ((a Str)) (! (=> ((_ is some_T_storage_StoragePaymentInfo) (select t a)) (= (T_storage_StoragePaymentInfo_Address (val_T_storage_StoragePaymentInfo (select t a))) a)) :pattern ((select t a)))))
; footprint of a plan-paid file (Expires <= 0: PostFile charges the plan for every non-positive expiry) of owner a: size times replication
(define-fun file_footprint ((f (Option T_storage_UnifiedFile)) (a Str)) Int
  (ite (and ((_ is some_T_storage_UnifiedFile) f) (= (T_storage_UnifiedFile_Owner (val_T_storage_UnifiedFile f)) a) (<= (T_storage_UnifiedFile_Expires (val_T_storage_UnifiedFile f)) 0))
       (* (T_storage_UnifiedFile_FileSize (val_T_storage_UnifiedFile f)) (T_storage_UnifiedFile_MaxProofs (val_T_storage_UnifiedFile f))) 0))
; total footprint of an account: ghost sum axiomatised by its update equation
(declare-fun footprint ((Array Str (Option T_storage_UnifiedFile)) Str) Int)
(assert (forall ((t (Array Str (Option T_storage_UnifiedFile))) (k Str) (v (Option T_storage_UnifiedFile)) (a Str))
  (! (= (footprint (store t k v) a) (+ (- (footprint t a) (file_footprint (select t k) a)) (file_footprint v a))) :pattern ((footprint (store t k v) a)))))
; a sum of non-negative terms is at least each of its terms (mathematical fact about the ghost sum; sizes of stored
; files are positive by files_wf)
(assert (forall ((t (Array Str (Option T_storage_UnifiedFile))) (k Str) (a Str))
  (! (=> (files_wf t) (>= (footprint t a) (file_footprint (select t k) a))) :pattern ((footprint t a) (select t k)))))
; C07: reported usage equals the footprint of the live plan-paid files, within the purchased space
(define-fun usage_ok ((pay (Array Str (Option T_storage_StoragePaymentInfo))) (files (Array Str (Option T_storage_UnifiedFile)))) Bool
  (forall ((a Str)) (! (=> ((_ is some_T_storage_StoragePaymentInfo) (select pay a))
      (and (= (T_storage_StoragePaymentInfo_SpaceUsed (val_T_storage_StoragePaymentInfo (select pay a))) (footprint files a))
           (<= 0 (T_storage_StoragePaymentInfo_SpaceUsed (val_T_storage_StoragePaymentInfo (select pay a))))
           (<= (T_storage_StoragePaymentInfo_SpaceUsed (val_T_storage_StoragePaymentInfo (select pay a))) (T_storage_StoragePaymentInfo_SpaceAvailable (val_T_storage_StoragePaymentInfo (select pay a))))))
    :pattern ((select pay a)))))
; what stateless validation must guarantee about a post-file message (C05, C07)
(define-fun postfile_valid ((m T_storage_MsgPostFile)) Bool
  (and (>= (T_storage_MsgPostFile_FileSize m) 1) (>= (T_storage_MsgPostFile_MaxProofs m) 1)
       (<= (* (T_storage_MsgPostFile_FileSize m) (T_storage_MsgPostFile_MaxProofs m)) 9223372036854775807)))
(declare-fun time_add_date (Int Int Int Int) Int)
; store key of a proof record: prover/owner/hex(merkle)/start/ (types.ProofKey); injective on separator-free provers and owners
(declare-fun proof_key (Str Str Str Int) Str)
; first '/'-separated component of a proof key is the prover (provers are bech32 addresses, hence separator-free;
; proved against SMT strings for separator-free provers and owners: lemma x/storage/types.proof_key_components)
(assert (forall ((p Str) (m Str) (o Str) (s Int)) (! (= (split_at (proof_key p m o s) {str "/"} 0) p) :pattern ((proof_key p m o s)))))
(assert (forall ((p Str) (m Str) (o Str) (s Int) (p2 Str) (m2 Str) (o2 Str) (s2 Int)) (! (=> (= (proof_key p m o s) (proof_key p2 m2 o2 s2)) (and (= p p2) (= m m2) (= o o2) (= s s2))) :pattern ((proof_key p m o s) (proof_key p2 m2 o2 s2)))))
; C17: every listed key of a stored or in-memory file has a proof record that refers back to the file and carries
; the prover that the key names
(define-fun listed_has_record ((proofs (Array Str (Option T_storage_FileProof))) (f T_storage_UnifiedFile) (k Str)) Bool
  (and ((_ is some_T_storage_FileProof) (select proofs k))
       (= k (proof_key (T_storage_FileProof_Prover (val_T_storage_FileProof (select proofs k))) (T_storage_UnifiedFile_Merkle f) (T_storage_UnifiedFile_Owner f) (T_storage_UnifiedFile_Start f)))))
; every proof record is stored under the key built from its own fields (SetProof is the only writer)
(define-fun proofs_wf ((t (Array Str (Option T_storage_FileProof)))) Bool
  (forall ((k Str)) (! (=> ((_ is some_T_storage_FileProof) (select t k))
     (= k (proof_key (T_storage_FileProof_Prover (val_T_storage_FileProof (select t k))) (T_storage_FileProof_Merkle (val_T_storage_FileProof (select t k)))
                     (T_storage_FileProof_Owner (val_T_storage_FileProof (select t k))) (T_storage_FileProof_Start (val_T_storage_FileProof (select t k))))))
   :pattern ((select t k)))))
