; sdk.Coins as an abstract multiset of denominations (denom -> amount >= 0).
; Coins_wf: the value satisfies Coins.IsValid() (every listed coin strictly positive, sorted, unique) —
; the bank keeper rejects transfers of coins that are not.
; sdk.ValidateDenom
(declare-fun valid_denom (Str) Bool)
(assert (valid_denom {str "ujkl"}))
(declare-fun Coins_amt (Coins Str) Int)
(declare-fun Coins_wf (Coins) Bool)
(declare-fun Coins_len (Coins) Int)
(declare-fun Coins_at (Coins Int) T_sdk_Coin)
(declare-const Coins_empty Coins)
(declare-fun Coins_one (Str Int) Coins)
(declare-fun Coins_add (Coins Coins) Coins)
(declare-fun Coins_lit_add (Coins T_sdk_Coin) Coins)
(declare-fun Coins_parse (Str) Coins)
(declare-fun Coin_parse (Str) T_sdk_Coin)
(declare-fun Coins_str (Coins) Str)
(declare-fun Coin_str (T_sdk_Coin) Str)
(define-fun Coins_valid ((c Coins)) Bool (forall ((d Str)) (! (>= (Coins_amt c d) 0) :pattern ((Coins_amt c d)))))
(assert (forall ((d Str)) (! (= (Coins_amt Coins_empty d) 0) :pattern ((Coins_amt Coins_empty d)))))
(assert (Coins_wf Coins_empty))
(assert (= (Coins_len Coins_empty) 0))
(assert (forall ((c Coins)) (! (>= (Coins_len c) 0) :pattern ((Coins_len c)))))
; NewCoins(coin): zero coins are dropped, the result is valid (negative amounts panic before)
(assert (forall ((dn Str) (a Int) (d Str)) (! (= (Coins_amt (Coins_one dn a) d) (ite (= d dn) a 0)) :pattern ((Coins_amt (Coins_one dn a) d)))))
(assert (forall ((dn Str) (a Int)) (! (=> (>= a 0) (Coins_wf (Coins_one dn a))) :pattern ((Coins_one dn a)))))
(assert (forall ((x Coins) (y Coins) (d Str)) (! (= (Coins_amt (Coins_add x y) d) (+ (Coins_amt x d) (Coins_amt y d))) :pattern ((Coins_amt (Coins_add x y) d)))))
(assert (forall ((x Coins) (y Coins)) (! (=> (and (Coins_wf x) (Coins_wf y)) (Coins_wf (Coins_add x y))) :pattern ((Coins_add x y)))))
; composite literal sdk.Coins{c}: kept as written, valid only if every amount is strictly positive
(assert (forall ((x Coins) (c T_sdk_Coin) (d Str)) (! (= (Coins_amt (Coins_lit_add x c) d) (+ (Coins_amt x d) (ite (= d (T_sdk_Coin_Denom c)) (T_sdk_Coin_Amount c) 0))) :pattern ((Coins_amt (Coins_lit_add x c) d)))))
(assert (forall ((x Coins) (c T_sdk_Coin)) (! (=> (Coins_wf (Coins_lit_add x c)) (and (Coins_wf x) (> (T_sdk_Coin_Amount c) 0))) :pattern ((Coins_wf (Coins_lit_add x c))))))
; (no extensionality axiom: a literal such as Coins{0ujkl} has the same amounts as the empty
; value but is not valid, so values are deliberately not identified by their amounts)
; a Coins value as a list (range loops): Coins_len entries, entry i = Coins_at c i; valid coins list each denomination
; once with a strictly positive amount, and amounts agree with Coins_amt
(define-fun Coins_listed ((c Coins)) Bool
  (and (forall ((i Int)) (! (=> (and (<= 0 i) (< i (Coins_len c))) (and (> (T_sdk_Coin_Amount (Coins_at c i)) 0) (valid_denom (T_sdk_Coin_Denom (Coins_at c i))) (= (Coins_amt c (T_sdk_Coin_Denom (Coins_at c i))) (T_sdk_Coin_Amount (Coins_at c i))))) :pattern ((Coins_at c i))))
       (forall ((i Int) (j Int)) (! (=> (and (<= 0 i) (< i j) (< j (Coins_len c))) (not (= (T_sdk_Coin_Denom (Coins_at c i)) (T_sdk_Coin_Denom (Coins_at c j))))) :pattern ((Coins_at c i) (Coins_at c j))))))
