; requires: merkle
; the fold over the first i segments does not see a segment appended behind them. Proved by induction on i:
; base and step are the lemma obligations x/filetree/types.prefix_fold_base / prefix_fold_step (C20); the induction
; schema itself is the meta-argument.
(assert (forall ((a Str) (c Str) (i Int)) (! (=> (and (not (str.contains c "/")) (<= 0 i) (<= i (split_count a "/"))) (= (mp_fold (str.++ a "/" c) i) (mp_fold a i))) :pattern ((mp_fold (str.++ a "/" c) i)))))
