; requires: kv strings sepfree bank rnsresolve
; x/notifications store layout (concrete string mode only)
(define-fun notif_prefix () Str "Notification/")
(define-fun notif_key ((to Str) (from Str) (t Int)) Str (str.++ notif_prefix to "/" from "/" (itoa t)))
(define-fun block_key ((owner Str) (blocked Str)) Str (str.++ notif_prefix owner "/" blocked))
; the keys an inbox query for address a scans: everything under "Notification/<a>/"
(define-fun in_inbox ((k Str) (a Str)) Bool (str.prefixof (str.++ notif_prefix a "/") k))
; decimal rendering of integers contains no separator and is injective (strconv / fmt %d)
(assert (forall ((n Int)) (! (and (not (str.contains (itoa n) "/")) (> (str.len (itoa n)) 0)) :pattern ((itoa n)))))
(assert (forall ((n Int) (m Int)) (! (=> (= (itoa n) (itoa m)) (= n m)) :pattern ((itoa n) (itoa m)))))
; bech32 strings contain no separator
(assert (forall ((a Str)) (! (slashfree (bech32 a)) :pattern ((bech32 a)))))
