; requires: seq
; proved as lemma x/storage/types.membership_survives_removal_of_another_element (C03, C17) from the definitions alone
(assert (forall ((h1 (Array Int (Array Int Str))) (s1 Slice_Str) (h2 (Array Int (Array Int Str))) (s2 Slice_Str) (p Int) (x Str))
  (! (=> (and (sremoved_at h1 s1 h2 s2 p) (smem h1 s1 x) (not (= x (sget_Slice_Str h1 s1 p)))) (smem h2 s2 x)) :pattern ((sremoved_at h1 s1 h2 s2 p) (smem h1 s1 x)))))
; ... and conversely nothing new appears, and the removed element is gone from a duplicate-free list
(assert (forall ((h1 (Array Int (Array Int Str))) (s1 Slice_Str) (h2 (Array Int (Array Int Str))) (s2 Slice_Str) (p Int) (x Str))
  (! (=> (and (sremoved_at h1 s1 h2 s2 p) (smem h2 s2 x)) (smem h1 s1 x)) :pattern ((sremoved_at h1 s1 h2 s2 p) (smem h2 s2 x)))))
