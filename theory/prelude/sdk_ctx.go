package prelude

// sdk.Context, logging, events, telemetry, gas meter, tendermint rand.

//@ func (github.com/cosmos/cosmos-sdk/types.Context).BlockHeight
//@   ensures result == W.height
//@   ensures result >= 0 && result <= 1152921504606846976
//@   assumes A-TIME: block heights are never negative and stay below 2^60 (at six seconds a block, 2e11 years)
//@ func (github.com/cosmos/cosmos-sdk/types.Context).BlockTime
//@   ensures result == W.time
//@ func (github.com/cosmos/cosmos-sdk/types.Context).BlockGasMeter
//@   ensures result == W.gasMeter
//@ func (github.com/cosmos/cosmos-sdk/store/types.GasMeter).GasConsumed
//@   ensures result == W.gasUsed
//@ func (github.com/cosmos/cosmos-sdk/types.Context).GasMeter
//@   effectfree
//@ func (github.com/cosmos/cosmos-sdk/types.Context).Logger
//@   effectfree
//@ func (github.com/tendermint/tendermint/libs/log.Logger).Info
//@   effectfree
//@ func (github.com/tendermint/tendermint/libs/log.Logger).Debug
//@   effectfree
//@ func (github.com/tendermint/tendermint/libs/log.Logger).Error
//@   effectfree
//@ func (github.com/cosmos/cosmos-sdk/types.Context).EventManager
//@   effectfree
//@ func (*github.com/cosmos/cosmos-sdk/types.EventManager).EmitEvent
//@   effectfree
//@ func (*github.com/cosmos/cosmos-sdk/types.EventManager).EmitEvents
//@   effectfree
//@ func (*github.com/cosmos/cosmos-sdk/types.EventManager).EmitTypedEvent
//@   effectfree
//@ func github.com/cosmos/cosmos-sdk/types.NewEvent
//@   effectfree
//@ func github.com/cosmos/cosmos-sdk/types.NewAttribute
//@   effectfree
//@ func github.com/cosmos/cosmos-sdk/types.UnwrapSDKContext
//@   effectfree
//@ func github.com/cosmos/cosmos-sdk/types.WrapSDKContext
//@   effectfree
//@ func github.com/cosmos/cosmos-sdk/telemetry.ModuleMeasureSince
//@   effectfree
//@ func github.com/cosmos/cosmos-sdk/telemetry.IncrCounter
//@   effectfree
//@ func time.Now
//@   effectfree
//@ func fmt.Println
//@   effectfree
//@ func fmt.Printf
//@   effectfree

//@ func github.com/tendermint/tendermint/libs/rand.NewRand
//@   uses rand
//@   ensures !rand_is_seeded(*result)
//@ func (*github.com/tendermint/tendermint/libs/rand.Rand).Seed
//@   uses rand
//@   modifies *arg0
//@   ensures *arg0 == rand_seeded(arg1)
//@ func (*github.com/tendermint/tendermint/libs/rand.Rand).Int63n
//@   uses rand
//@   requires [n_positive panics] arg1 > 0
//@   requires [generator_seeded_from_chain_state] rand_is_seeded(*arg0)
//@   modifies *arg0
//@   ensures 0 <= result && result < arg1 && result == rand_draw(old(*arg0), arg1) && *arg0 == rand_next(old(*arg0))
//@ func github.com/cosmos/cosmos-sdk/telemetry.ModuleSetGauge
//@   effectfree
//@ func github.com/cosmos/cosmos-sdk/telemetry.SetGauge
//@   effectfree
//@ func github.com/cosmos/cosmos-sdk/telemetry.SetGaugeWithLabels
//@   effectfree
//@ func github.com/cosmos/cosmos-sdk/telemetry.MeasureSince
//@   effectfree
// sha256 objects are modelled by the engine (bytes written so far); for effect analysis they touch nothing else
//@ func (hash.Hash).Write
//@   effectfree
//@ func (hash.Hash).Sum
//@   effectfree
//@ func (io.Writer).Write
//@   effectfree
//@ func crypto/sha256.New
//@   effectfree
