package prelude

// Trusted contracts of cosmos-sdk v0.45.17 types/decimal.go and types/int.go.
// sdk.Dec and sdk.Int are mapped to SMT Int (Dec: raw value scaled by 10^18).
// The 315-bit (Dec) / 256-bit (Int) overflow panics are NOT modelled (A-ARITH: operands derive from int64 values and
// token amounts far below those limits).

//@ func github.com/cosmos/cosmos-sdk/types.NewDec
//@   uses dec
//@   ensures result == arg0 * P18
//@ func github.com/cosmos/cosmos-sdk/types.NewInt
//@   ensures result == arg0
//@ func github.com/cosmos/cosmos-sdk/types.NewDecFromInt
//@   uses dec
//@   ensures result == arg0 * P18
//@ func github.com/cosmos/cosmos-sdk/types.ZeroDec
//@   ensures result == 0
//@ func github.com/cosmos/cosmos-sdk/types.OneDec
//@   uses dec
//@   ensures result == P18
//@ func github.com/cosmos/cosmos-sdk/types.ZeroInt
//@   ensures result == 0
//@ func github.com/cosmos/cosmos-sdk/types.OneInt
//@   ensures result == 1
//@ func github.com/cosmos/cosmos-sdk/types.NewDecWithPrec
//@   uses dec
//@   requires [prec_in_range panics] 0 <= arg1 && arg1 <= 18
//@   trusted

//@ func (github.com/cosmos/cosmos-sdk/types.Dec).Quo
//@   uses dec
//@   requires [divisor_nonzero panics] arg1 != 0
//@   ensures result == dec_quo(arg0, arg1)
//@ func (github.com/cosmos/cosmos-sdk/types.Dec).Mul
//@   uses dec
//@   ensures result == dec_mul(arg0, arg1)
//@ func (github.com/cosmos/cosmos-sdk/types.Dec).Sub
//@   uses dec
//@   ensures result == arg0 - arg1
//@ func (github.com/cosmos/cosmos-sdk/types.Dec).Add
//@   uses dec
//@   ensures result == arg0 + arg1
//@ func (github.com/cosmos/cosmos-sdk/types.Dec).MulInt64
//@   uses dec
//@   ensures result == arg0 * arg1
//@ func (github.com/cosmos/cosmos-sdk/types.Dec).MulInt
//@   uses dec
//@   ensures result == arg0 * arg1
//@ func (github.com/cosmos/cosmos-sdk/types.Dec).QuoInt64
//@   uses dec
//@   requires [divisor_nonzero panics] arg1 != 0
//@   ensures result == arg0 / arg1
//@ func (github.com/cosmos/cosmos-sdk/types.Dec).QuoInt
//@   uses dec
//@   requires [divisor_nonzero panics] arg1 != 0
//@   ensures result == arg0 / arg1
//@ func (github.com/cosmos/cosmos-sdk/types.Dec).TruncateInt64
//@   uses dec
//@   requires [fits_int64 panics] is_int64(dec_trunc(arg0))
//@   ensures result == dec_trunc(arg0)
//@ func (github.com/cosmos/cosmos-sdk/types.Dec).TruncateInt
//@   uses dec
//@   ensures result == dec_trunc(arg0)
//@ func (github.com/cosmos/cosmos-sdk/types.Dec).TruncateDec
//@   uses dec
//@   ensures result == dec_trunc(arg0) * P18
//@ func (github.com/cosmos/cosmos-sdk/types.Dec).IsZero
//@   ensures result == (arg0 == 0)
//@ func (github.com/cosmos/cosmos-sdk/types.Dec).IsNegative
//@   ensures result == (arg0 < 0)
//@ func (github.com/cosmos/cosmos-sdk/types.Dec).IsPositive
//@   ensures result == (arg0 > 0)
//@ func (github.com/cosmos/cosmos-sdk/types.Dec).LT
//@   ensures result == (arg0 < arg1)
//@ func (github.com/cosmos/cosmos-sdk/types.Dec).LTE
//@   ensures result == (arg0 <= arg1)
//@ func (github.com/cosmos/cosmos-sdk/types.Dec).GT
//@   ensures result == (arg0 > arg1)
//@ func (github.com/cosmos/cosmos-sdk/types.Dec).GTE
//@   ensures result == (arg0 >= arg1)
//@ func (github.com/cosmos/cosmos-sdk/types.Dec).Equal
//@   ensures result == (arg0 == arg1)
//@ func (github.com/cosmos/cosmos-sdk/types.Dec).String
//@   effectfree

//@ func (github.com/cosmos/cosmos-sdk/types.Int).ToDec
//@   uses dec
//@   ensures result == arg0 * P18
//@ func (github.com/cosmos/cosmos-sdk/types.Int).Sub
//@   uses dec
//@   ensures result == arg0 - arg1
//@ func (github.com/cosmos/cosmos-sdk/types.Int).Add
//@   uses dec
//@   ensures result == arg0 + arg1
//@ func (github.com/cosmos/cosmos-sdk/types.Int).Mul
//@   uses dec
//@   ensures result == arg0 * arg1
//@ func (github.com/cosmos/cosmos-sdk/types.Int).MulRaw
//@   uses dec
//@   ensures result == arg0 * arg1
//@ func (github.com/cosmos/cosmos-sdk/types.Int).Quo
//@   requires [divisor_nonzero panics] arg1 != 0
//@   ensures result == arg0 / arg1
//@ func (github.com/cosmos/cosmos-sdk/types.Int).QuoRaw
//@   requires [divisor_nonzero panics] arg1 != 0
//@   ensures result == arg0 / arg1
//@ func (github.com/cosmos/cosmos-sdk/types.Int).Int64
//@   uses dec
//@   requires [fits_int64 panics] is_int64(arg0)
//@   ensures result == arg0
//@ func (github.com/cosmos/cosmos-sdk/types.Int).IsZero
//@   ensures result == (arg0 == 0)
//@ func (github.com/cosmos/cosmos-sdk/types.Int).IsNegative
//@   ensures result == (arg0 < 0)
//@ func (github.com/cosmos/cosmos-sdk/types.Int).IsPositive
//@   ensures result == (arg0 > 0)
//@ func (github.com/cosmos/cosmos-sdk/types.Int).LT
//@   ensures result == (arg0 < arg1)
//@ func (github.com/cosmos/cosmos-sdk/types.Int).LTE
//@   ensures result == (arg0 <= arg1)
//@ func (github.com/cosmos/cosmos-sdk/types.Int).GT
//@   ensures result == (arg0 > arg1)
//@ func (github.com/cosmos/cosmos-sdk/types.Int).GTE
//@   ensures result == (arg0 >= arg1)
//@ func (github.com/cosmos/cosmos-sdk/types.Int).Equal
//@   ensures result == (arg0 == arg1)
//@ func (github.com/cosmos/cosmos-sdk/types.Int).String
//@   effectfree
//@ func (github.com/cosmos/cosmos-sdk/types.Dec).MustFloat64
//@   effectfree
//@ func github.com/cosmos/cosmos-sdk/types.NewDecFromStr
//@   uses dec
//@   ensures err == nil ==> result0 == dec_parse(arg0)
