package prelude

//@ func github.com/cosmos/cosmos-sdk/types/errors.Wrap
//@   ensures (result == nil) == (arg0 == nil)
//@ func github.com/cosmos/cosmos-sdk/types/errors.Wrapf
//@   ensures (result == nil) == (arg0 == nil)
//@ func errors.New
//@   ensures result != nil
//@ func fmt.Errorf
//@   ensures result != nil
//@ func (error).Error
//@   effectfree
