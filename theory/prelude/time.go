package prelude

// time.Time is mapped to Int (nanoseconds since the epoch), time.Duration to Int (nanoseconds).
// Saturation of Sub/Add at the int64 limits is not modelled (A-ARITH).

//@ func (time.Time).After
//@   ensures result == (arg0 > arg1)
//@ func (time.Time).Before
//@   ensures result == (arg0 < arg1)
//@ func (time.Time).Equal
//@   ensures result == (arg0 == arg1)
//@ func (time.Time).Add
//@   ensures result == arg0 + arg1
//@ func (time.Time).Sub
//@   ensures result == arg0 - arg1
//@ func (time.Time).UnixMicro
//@   ensures result == arg0 / 1000
//@ func (time.Time).Unix
//@   effectfree
//@ func (time.Duration).Milliseconds
//@   ensures result == arg0 / 1000000
//@ func (time.Duration).Microseconds
//@   ensures result == arg0 / 1000
//@ func (time.Duration).Truncate
//@   ensures result == ite(arg1 <= 0, arg0, arg0 - arg0 % arg1)
//@ func (time.Time).AddDate
//@   uses files
//@   ensures result == time_add_date(arg0, arg1, arg2, arg3)
