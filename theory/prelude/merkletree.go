package prelude

// go-merkletree: proof verification is a function of (leaf data, proof, root); which proofs it accepts is the
// library's business (A-DEP). The verified code must hand it the right leaf, the decoded proof and the file's root.
//@ func github.com/wealdtech/go-merkletree/v2.VerifyProofUsing
//@   uses merkleproof
//@   ensures (result0 && result1 == nil) == (len(arg3) == 1 && mt_accepts(arg0, *arg2, arg3[0]))
//@ func github.com/wealdtech/go-merkletree/v2/sha3.New512
//@   effectfree
