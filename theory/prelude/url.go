package prelude

// net/url: parsing is a function of the input string (A-DEP); which strings parse, and to what host, is the library's business.
//@ func net/url.Parse
//@   uses urls
//@   ensures (result1 == nil) == url_ok(arg0)
//@   ensures result1 == nil ==> result0 != nil && *result0 == url_parse(arg0)
//@ func (*net/url.URL).Hostname
//@   uses urls
//@   ensures result == url_host(*arg0)
