package prelude

// cosmos-sdk store layer: a module's KVStore is the map W.kv from full keys to values; a prefix store is
// represented by its accumulated prefix (sort Str). Iterators: see kviter.

//@ func (github.com/cosmos/cosmos-sdk/types.Context).KVStore
//@   uses kv
//@   ensures store_prefix(result) == ""
//@ func github.com/cosmos/cosmos-sdk/store/prefix.NewStore
//@   uses kv
//@   ensures result == store_prefix(arg0) + arg1
//@ func (github.com/cosmos/cosmos-sdk/store/prefix.Store).Set
//@   uses kv
//@   requires [value_not_nil panics] arg2 != Bytes_nil
//@   modifies W.kv
//@   ensures W.kv == upd(old(W.kv), arg0 + arg1, arg2)
//@ func (github.com/cosmos/cosmos-sdk/store/prefix.Store).Get
//@   uses kv
//@   ensures result == ite(present(W.kv[arg0 + arg1]), val(W.kv[arg0 + arg1]), Bytes_nil)
//@ func (github.com/cosmos/cosmos-sdk/store/prefix.Store).Has
//@   uses kv
//@   ensures result == present(W.kv[arg0 + arg1])
//@ func (github.com/cosmos/cosmos-sdk/store/prefix.Store).Delete
//@   uses kv
//@   modifies W.kv
//@   ensures W.kv == del(old(W.kv), arg0 + arg1)

// store iterators: reading only (which entries they visit is not modelled here; where that matters the iterating
// function has an `iterates` contract, A-ITER)
//@ func github.com/cosmos/cosmos-sdk/types.KVStorePrefixIterator
//@   effectfree
//@ func github.com/cosmos/cosmos-sdk/types.KVStoreReversePrefixIterator
//@   effectfree
//@ func (github.com/tendermint/tm-db.Iterator).Close
//@   effectfree
//@ func (github.com/tendermint/tm-db.Iterator).Valid
//@   effectfree
//@ func (github.com/tendermint/tm-db.Iterator).Next
//@   effectfree
//@ func (github.com/tendermint/tm-db.Iterator).Value
//@   effectfree
//@ func (github.com/tendermint/tm-db.Iterator).Key
//@   effectfree
