package prelude

// Trusted contracts of the bank keeper interfaces of the custom modules
// (x/*/types/expected_keepers.go -> cosmos-sdk x/bank). On success balances
// move pointwise and nothing else changes; on failure nothing changes.

//@ func (_.BankKeeper).SendCoinsFromAccountToModule
//@   uses bank
//@   args recv ctx senderAddr recipientModule amt
//@   modifies W.bank
//@   ensures err != nil ==> W.bank == old(W.bank)
//@   ensures err == nil ==> Coins_wf(amt) && bank_covers(old(W.bank), senderAddr, amt) && bank_moved(old(W.bank), W.bank, senderAddr, moduleAddr(recipientModule), amt)
//@ func (_.BankKeeper).SendCoinsFromModuleToAccount
//@   uses bank
//@   args recv ctx senderModule recipientAddr amt
//@   modifies W.bank
//@   ensures err != nil ==> W.bank == old(W.bank)
//@   ensures err == nil ==> Coins_wf(amt) && bank_covers(old(W.bank), moduleAddr(senderModule), amt) && bank_moved(old(W.bank), W.bank, moduleAddr(senderModule), recipientAddr, amt)
//@ func (_.BankKeeper).SendCoinsFromModuleToModule
//@   uses bank
//@   args recv ctx senderModule recipientModule amt
//@   modifies W.bank
//@   ensures err != nil ==> W.bank == old(W.bank)
//@   ensures err == nil ==> Coins_wf(amt) && bank_covers(old(W.bank), moduleAddr(senderModule), amt) && bank_moved(old(W.bank), W.bank, moduleAddr(senderModule), moduleAddr(recipientModule), amt)
//@ func (_.BankKeeper).SendCoins
//@   uses bank
//@   args recv ctx fromAddr toAddr amt
//@   modifies W.bank
//@   ensures err != nil ==> W.bank == old(W.bank)
//@   ensures err == nil ==> Coins_wf(amt) && bank_covers(old(W.bank), fromAddr, amt) && bank_moved(old(W.bank), W.bank, fromAddr, toAddr, amt)
//@ func (_.BankKeeper).MintCoins
//@   uses bank
//@   args recv ctx moduleName amt
//@   modifies W.bank, W.supply
//@   ensures err != nil ==> W.bank == old(W.bank) && W.supply == old(W.supply)
//@   ensures err == nil ==> Coins_wf(amt) && bank_minted(old(W.bank), W.bank, moduleAddr(moduleName), amt) && forall(d, "Str", W.supply[d] == old(W.supply[d]) + Coins_amt(amt, d))
//@ func (_.BankKeeper).GetAllBalances
//@   uses bank
//@   args recv ctx addr
//@   ensures forall(d, "Str", Coins_amt(result, d) == W.bank[addr][d])
//@ func (_.BankKeeper).GetBalance
//@   uses bank
//@   args recv ctx addr denom
//@   ensures result.Denom == denom && result.Amount == W.bank[addr][denom]

//@ func github.com/cosmos/cosmos-sdk/types.AccAddressFromBech32
//@   uses bank
//@   ensures err == nil ==> bech32_ok(arg0) && result0 == addr_of(arg0)
//@   ensures err != nil ==> !bech32_ok(arg0) && result0 == ""
//@ func (github.com/cosmos/cosmos-sdk/types.AccAddress).String
//@   uses bank
//@   ensures result == bech32(arg0)
//@ func github.com/cosmos/cosmos-sdk/types.NewInt64Coin
//@   uses coins
//@   requires [denom_valid panics] valid_denom(arg0)
//@   requires [amount_nonnegative panics] arg1 >= 0
//@   ensures result.Denom == arg0 && result.Amount == arg1
//@ func github.com/cosmos/cosmos-sdk/types.NewCoin
//@   uses coins
//@   requires [denom_valid panics] valid_denom(arg0)
//@   requires [amount_nonnegative panics] arg1 >= 0
//@   ensures result.Denom == arg0 && result.Amount == arg1
//@ func github.com/cosmos/cosmos-sdk/types.ParseCoinNormalized
//@   uses coins
//@   ensures err == nil ==> result0 == Coin_parse(arg0) && result0.Amount >= 0
//@ func github.com/cosmos/cosmos-sdk/types.ParseCoinsNormalized
//@   uses coins
//@   ensures err == nil ==> result0 == Coins_parse(arg0) && Coins_wf(result0)
//@ func (github.com/cosmos/cosmos-sdk/types.Coins).String
//@   uses coins
//@   ensures result == Coins_str(arg0)
//@ func (github.com/cosmos/cosmos-sdk/types.Coin).String
//@   uses coins
//@   ensures result == Coin_str(arg0)
//@ func (github.com/cosmos/cosmos-sdk/types.Coins).Empty
//@   uses coins
//@   ensures result == forall(d, "Str", Coins_amt(arg0, d) == 0)
//@ func (github.com/cosmos/cosmos-sdk/types.Coins).AmountOf
//@   uses coins
//@   ensures result == Coins_amt(arg0, arg1)
//@ func (github.com/cosmos/cosmos-sdk/types.Coins).Add
//@   trusted

//@ func (_.RnsKeeper).Resolve
//@   uses rnsresolve
//@   args recv ctx name
//@   assumes A-RNSCONST: rns tables and the oracle price do not change during one storage handler
//@   ensures (err == nil) == rns_resolve_ok(name)
//@   ensures err == nil ==> result0 == rns_resolve(name)
//@ func (_.AccountKeeper).HasAccount
//@   effectfree
//@ func (_.AccountKeeper).SetAccount
//@   effectfree
//@ func (_.AccountKeeper).NewAccountWithAddress
//@   effectfree
//@ func (_.AccountKeeper).GetAccount
//@   effectfree
