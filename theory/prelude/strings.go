package prelude

//@ func strings.ToLower
//@   uses strings
//@   ensures result == lower(arg0)
//@ func strings.ReplaceAll
//@   uses strings
//@   ensures result == replace_all(arg0, arg1, arg2)

// concrete string mode only
//@ func strings.TrimSuffix
//@   strings concrete
//@   ensures result == smt("Str", "(ite (str.suffixof $2 $1) (str.substr $1 0 (- (str.len $1) (str.len $2))) $1)", arg0, arg1)
//@ func strings.Split
//@   uses strings
//@   allocates
//@   modifies H.HA_Str
//@   ensures fresh(result) && result.off == 0 && len(result) == split_count(arg0, arg1) && forall(i, 0, len(result), result[i] == split_at(arg0, arg1, i))
//@   ensures forall(l, "Int", l != result.arr ==> H.HA_Str[l] == old(H.HA_Str)[l])
//@ func strings.Contains
//@   strings concrete
//@   ensures result == smt("Bool", "(str.contains $1 $2)", arg0, arg1)
//@ func strings.HasPrefix
//@   strings concrete
//@   ensures result == smt("Bool", "(str.prefixof $2 $1)", arg0, arg1)
//@ func strings.HasSuffix
//@   strings concrete
//@   ensures result == smt("Bool", "(str.suffixof $2 $1)", arg0, arg1)
//@ func strings.Join
//@   effectfree
//@ func strconv.ParseInt
//@   uses strings
//@   ensures (err == nil) == parse_int_ok(arg0)
//@   ensures err == nil ==> result0 == parse_int(arg0)

//@ func slices.Clone
//@   trusted
//@   allocates
//@   modifies H.HA_Str
//@   assumes slices.Clone is only used on []string in the verified code
//@   ensures fresh(result) && result.off == 0 && len(result) == len(arg0) && forall(i, 0, len(arg0), result[i] == old(H.HA_Str)[arg0.arr][arg0.off + i])
//@   ensures forall(l, "Int", l != result.arr ==> H.HA_Str[l] == old(H.HA_Str)[l])

// slices.Sort on []string: sorts in place; the result is the ascending arrangement of the same elements
//@ func slices.Sort
//@   trusted
//@   uses seq
//@   modifies arr(arg0)
//@   assumes slices.Sort is only used on []string in the verified code; str_lt is the byte-wise order of Go strings
//@   ensures forall(x, "Str", smem(H.HA_Str, arg0, x) == smem(old(H.HA_Str), arg0, x))
//@   ensures forall(i, 0, len(arg0), forall(j, 0, len(arg0), i < j ==> str_le(sget(H.HA_Str, arg0, i), sget(H.HA_Str, arg0, j))))
//@   ensures snodup(old(H.HA_Str), arg0) ==> snodup(H.HA_Str, arg0)
