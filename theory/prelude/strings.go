package prelude

//@ func strings.ToLower
//@   uses strings
//@   ensures result == lower(arg0)
//@ func strings.ReplaceAll
//@   uses strings
//@   ensures result == replace_all(arg0, arg1, arg2)

// concrete string mode only
//@ func strings.TrimSuffix
//@   strings concrete
//@   ensures result == smt("Str", "(ite (str.suffixof $2 $1) (str.substr $1 0 (- (str.len $1) (str.len $2))) $1)", arg0, arg1)
//@ func strings.Split
//@   strings concrete
//@   uses merkle
//@   allocates
//@   modifies H.HA_Str
//@   ensures fresh(result) && result.off == 0 && len(result) == split_count(arg0, arg1) && forall(i, 0, len(result), result[i] == split_at(arg0, arg1, i))
//@   ensures forall(l, "Int", l != result.arr ==> H.HA_Str[l] == old(H.HA_Str)[l])
//@ func strings.Contains
//@   strings concrete
//@   ensures result == smt("Bool", "(str.contains $1 $2)", arg0, arg1)
//@ func strings.HasPrefix
//@   strings concrete
//@   ensures result == smt("Bool", "(str.prefixof $2 $1)", arg0, arg1)
//@ func strings.HasSuffix
//@   strings concrete
//@   ensures result == smt("Bool", "(str.suffixof $2 $1)", arg0, arg1)
