package prelude

//@ func strings.ToLower
//@   uses strings
//@   ensures result == lower(arg0)
//@ func strings.ReplaceAll
//@   uses strings
//@   ensures result == replace_all(arg0, arg1, arg2)
