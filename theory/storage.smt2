; spec functions of x/storage
; start of the proof window that contains height h (file start s, window length w >= 1, h >= s)
(define-fun rounded_window ((h Int) (s Int) (w Int)) Int (+ (- (- h s) (trem (- h s) w)) s))
; number of chunks of a file of n bytes with chunk size c
(define-fun nchunks ((n Int) (c Int)) Int (tquo (- (+ n c) 1) c))
