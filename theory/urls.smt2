; requires: strings
; net/url (A-DEP): Parse is a function of its argument
(declare-fun url_ok (Str) Bool)
(declare-fun url_parse (Str) O_net_url_URL)
(declare-fun url_host (O_net_url_URL) Str)
; the empty address parses to a URL without host: a single empty label
(assert (= (split_count (url_host (url_parse {str ""})) {str "."}) 1))
