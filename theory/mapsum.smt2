; requires: seq
; Finite sums over a map[string]int64 and over a list of its keys (C03: the sizes counted for the provers never add up
; to more than the network total the shares are taken of).
; msum2(h, vv): the sum of vv[k] over the keys k with h[k] (h, vv: the membership and value arrays of a Go map, which
; is finite). Characterised by the empty map and by what one assignment m[k] = x does to it.
(declare-fun msum2 ((Array Str Bool) (Array Str Int)) Int)
(assert (forall ((vv (Array Str Int))) (! (= (msum2 ((as const (Array Str Bool)) false) vv) 0) :pattern ((msum2 ((as const (Array Str Bool)) false) vv)))))
(assert (forall ((h (Array Str Bool)) (vv (Array Str Int)) (k Str) (x Int))
  (! (= (msum2 (store h k true) (store vv k x)) (+ (- (msum2 h vv) (ite (select h k) (select vv k) 0)) x))
     :pattern ((msum2 (store h k true) (store vv k x))))))
; lsum(H, s, vv, i): vv[s[0]] + ... + vv[s[i-1]] for a slice s of strings in heap H
(declare-fun lsum ((Array Int (Array Int Str)) Slice_Str (Array Str Int) Int) Int)
(assert (forall ((H (Array Int (Array Int Str))) (s Slice_Str) (vv (Array Str Int))) (! (= (lsum H s vv 0) 0) :pattern ((lsum H s vv 0)))))
(assert (forall ((H (Array Int (Array Int Str))) (s Slice_Str) (vv (Array Str Int)) (i Int))
  (! (=> (>= i 1) (= (lsum H s vv i) (+ (lsum H s vv (- i 1)) (select vv (sget_Slice_Str H s (- i 1))))))
     :pattern ((lsum H s vv i)))))
; the sum only looks at the slice's own backing array
(assert (forall ((H1 (Array Int (Array Int Str))) (H2 (Array Int (Array Int Str))) (s Slice_Str) (vv (Array Str Int)) (i Int))
  (! (=> (= (select H1 (arr_Slice_Str s)) (select H2 (arr_Slice_Str s))) (= (lsum H1 s vv i) (lsum H2 s vv i)))
     :pattern ((lsum H1 s vv i) (lsum H2 s vv i)))))
; A-SUM (arithmetic of finite sums, trusted): a duplicate-free list of keys of a map with non-negative values sums to at
; most the whole map
(assert (forall ((H (Array Int (Array Int Str))) (s Slice_Str) (h (Array Str Bool)) (vv (Array Str Int)))
  (! (=> (and (snodup H s)
              (forall ((j Int)) (=> (and (<= 0 j) (< j (len_Slice_Str s))) (select h (sget_Slice_Str H s j))))
              (forall ((k Str)) (=> (select h k) (>= (select vv k) 0))))
         (<= (lsum H s vv (len_Slice_Str s)) (msum2 h vv)))
     :pattern ((lsum H s vv (len_Slice_Str s)) (msum2 h vv)))))
