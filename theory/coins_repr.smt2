; requires: coins
; a valid (IsValid) Coins value is a list of strictly positive coins with distinct valid denominations whose amounts are
; the amounts of the value (representation of sdk.Coins)
(assert (forall ((c Coins)) (! (=> (Coins_wf c) (and (Coins_valid c) (Coins_listed c))) :pattern ((Coins_wf c)))))
