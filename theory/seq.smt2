; sequences of strings held in slices: a slice value is (arr, off, len, cap); contents live in the heap
; h : location -> (index -> element). sget_Slice_Str is the engine's element-read symbol (defining axiom emitted with
; the slice sort). smem / sremoved_at are uninterpreted predicates with defining axioms so that they can serve as triggers.
(define-fun sget ((h (Array Int (Array Int Str))) (s Slice_Str) (i Int)) Str (sget_Slice_Str h s i))
(declare-fun smem ((Array Int (Array Int Str)) Slice_Str Str) Bool)
(assert (forall ((h (Array Int (Array Int Str))) (s Slice_Str) (x Str)) (! (= (smem h s x)
   (exists ((i Int)) (and (<= 0 i) (< i (len_Slice_Str s)) (= (sget_Slice_Str h s i) x)))) :pattern ((smem h s x)))))
; direct introduction rule (no existential to instantiate)
(assert (forall ((h (Array Int (Array Int Str))) (s Slice_Str) (i Int)) (! (=> (and (<= 0 i) (< i (len_Slice_Str s))) (smem h s (sget_Slice_Str h s i))) :pattern ((sget_Slice_Str h s i)))))
(define-fun snodup ((h (Array Int (Array Int Str))) (s Slice_Str)) Bool
  (forall ((i Int) (j Int)) (=> (and (<= 0 i) (< i j) (< j (len_Slice_Str s))) (not (= (sget_Slice_Str h s i) (sget_Slice_Str h s j))))))
; s2 (in heap h2) is s1 (in heap h1) with the single element at position p removed, order kept
(declare-fun sremoved_at ((Array Int (Array Int Str)) Slice_Str (Array Int (Array Int Str)) Slice_Str Int) Bool)
(assert (forall ((h1 (Array Int (Array Int Str))) (s1 Slice_Str) (h2 (Array Int (Array Int Str))) (s2 Slice_Str) (p Int)) (! (= (sremoved_at h1 s1 h2 s2 p)
  (and (<= 0 p) (< p (len_Slice_Str s1)) (= (len_Slice_Str s2) (- (len_Slice_Str s1) 1))
       (forall ((i Int)) (=> (and (<= 0 i) (< i (len_Slice_Str s2))) (= (sget_Slice_Str h2 s2 i) (ite (< i p) (sget_Slice_Str h1 s1 i) (sget_Slice_Str h1 s1 (+ i 1)))))))) :pattern ((sremoved_at h1 s1 h2 s2 p)))))
; same contents
(define-fun ssame ((h1 (Array Int (Array Int Str))) (s1 Slice_Str) (h2 (Array Int (Array Int Str))) (s2 Slice_Str)) Bool
  (and (= (len_Slice_Str s1) (len_Slice_Str s2))
       (forall ((i Int)) (=> (and (<= 0 i) (< i (len_Slice_Str s1))) (= (sget_Slice_Str h1 s1 i) (sget_Slice_Str h2 s2 i))))))
; membership only looks at the slice's own backing array (immediate from the defining axioms; stated as a rule because
; the two heaps are usually different terms that agree on that array)
(assert (forall ((h1 (Array Int (Array Int Str))) (h2 (Array Int (Array Int Str))) (s Slice_Str) (x Str))
  (! (=> (= (select h1 (arr_Slice_Str s)) (select h2 (arr_Slice_Str s))) (= (smem h1 s x) (smem h2 s x))) :pattern ((smem h1 s x) (smem h2 s x)))))
(assert (forall ((h1 (Array Int (Array Int Str))) (g1 (Array Int (Array Int Str))) (s1 Slice_Str) (h2 (Array Int (Array Int Str))) (s2 Slice_Str) (p Int))
  (! (=> (and (sremoved_at h1 s1 h2 s2 p) (= (select h1 (arr_Slice_Str s1)) (select g1 (arr_Slice_Str s1)))) (sremoved_at g1 s1 h2 s2 p)) :pattern ((sremoved_at h1 s1 h2 s2 p) (select g1 (arr_Slice_Str s1))))))
; sorted ascending (strict: no duplicates)
(define-fun ssorted ((h (Array Int (Array Int Str))) (s Slice_Str)) Bool
  (forall ((i Int) (j Int)) (=> (and (<= 0 i) (< i j) (< j (len_Slice_Str s))) (str_lt (sget_Slice_Str h s i) (sget_Slice_Str h s j)))))
; position of a member (any one; unique in duplicate-free sequences)
(declare-fun sindex ((Array Int (Array Int Str)) Slice_Str Str) Int)
(assert (forall ((h (Array Int (Array Int Str))) (s Slice_Str) (x Str)) (! (=> (smem h s x)
   (and (<= 0 (sindex h s x)) (< (sindex h s x) (len_Slice_Str s)) (= (sget_Slice_Str h s (sindex h s x)) x))) :pattern ((sindex h s x)))))
