; requires: coins strings bank rnscost
; spec functions of x/rns
; every stored name sits at the key built from its own Name/Tld fields, which are lower case
(define-fun names_wf ((t (Array Str (Array Str (Option T_rns_Names))))) Bool
  (forall ((n Str) (d Str)) (! (=> ((_ is some_T_rns_Names) (select (select t n) d))
        (and (= (T_rns_Names_Name (val_T_rns_Names (select (select t n) d))) n) (= (T_rns_Names_Tld (val_T_rns_Names (select (select t n) d))) d)
             (= (lower n) n) (= (lower d) d)))
     :pattern ((select (select t n) d)))))
; a name is live while the current height is strictly below its expiry (DESIGN 5.C08)
(declare-fun free_name (Int Int) Str)
(assert (= (lower {str "jkl"}) {str "jkl"}))
(assert (= (lower {str "ibc"}) {str "ibc"}))
(define-fun name_live ((t (Array Str (Array Str (Option T_rns_Names)))) (n Str) (d Str) (h Int)) Bool
  (and ((_ is some_T_rns_Names) (select (select t n) d)) (< h (T_rns_Names_Expires (val_T_rns_Names (select (select t n) d))))))
; sum of all open bids per denomination: ghost function axiomatised by its update equations
(declare-fun bids_sum ((Array Str (Option T_rns_Bids)) Str) Int)
(define-fun bid_amt ((b (Option T_rns_Bids)) (d Str)) Int (ite ((_ is some_T_rns_Bids) b) (Coins_amt (Coins_parse (T_rns_Bids_Price (val_T_rns_Bids b))) d) 0))
(assert (forall ((t (Array Str (Option T_rns_Bids))) (k Str) (v (Option T_rns_Bids)) (d Str))
  (! (= (bids_sum (store t k v) d) (+ (- (bids_sum t d) (bid_amt (select t k) d)) (bid_amt v d)))
     :pattern ((bids_sum (store t k v) d)))))
; escrow invariant of C09: the rns module account holds exactly the sum of the open bids
(define-fun escrow_ok ((bank (Array Str (Array Str Int))) (bids (Array Str (Option T_rns_Bids)))) Bool
  (forall ((d Str)) (! (= (select (select bank (moduleAddr {str "rns"})) d) (bids_sum bids d)) :pattern ((bids_sum bids d)))))
; listings sit at the key given by their own Name field and are created by signers with a valid address
(define-fun forsale_wf ((t (Array Str (Option T_rns_Forsale)))) Bool
  (forall ((k Str)) (! (=> ((_ is some_T_rns_Forsale) (select t k))
       (and (= (T_rns_Forsale_Name (val_T_rns_Forsale (select t k))) k)
            (bech32_ok (T_rns_Forsale_Owner (val_T_rns_Forsale (select t k))))
            (is_user (addr_of (T_rns_Forsale_Owner (val_T_rns_Forsale (select t k)))))))
     :pattern ((select t k)))))
