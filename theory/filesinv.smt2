; requires: files seq
; C17: the prover list of a file is duplicate-free, within the replication limit, and every listed key has a proof
; record that refers back to the file (h: the string-slice heap holding the list)
(define-fun prover_list_ok ((h (Array Int (Array Int Str))) (proofs (Array Str (Option T_storage_FileProof))) (f T_storage_UnifiedFile)) Bool
  (and (snodup h (T_storage_UnifiedFile_Proofs f))
       (<= (len_Slice_Str (T_storage_UnifiedFile_Proofs f)) (T_storage_UnifiedFile_MaxProofs f))
       (forall ((j Int)) (! (=> (and (<= 0 j) (< j (len_Slice_Str (T_storage_UnifiedFile_Proofs f))))
            (listed_has_record proofs f (sget_Slice_Str h (T_storage_UnifiedFile_Proofs f) j)))
          :pattern ((sget_Slice_Str h (T_storage_UnifiedFile_Proofs f) j))))))
