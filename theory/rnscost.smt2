; price table of x/rns
; yearly base cost per TLD (the initial value of the package-level map types.TLDCost, A-GLOBALS)
(declare-fun tld_cost (Str) Int)
(assert (= (tld_cost {str "jkl"}) 10000000))
(assert (= (tld_cost {str "ibc"}) 50000000))
(define-fun name_tier ((len Int)) Int (ite (= len 1) 24 (ite (= len 2) 12 (ite (= len 3) 6 (ite (= len 4) 3 1)))))
(define-fun year_blocks () Int 5484530)
