; requires: bank dec
; x/jklmint spec functions
(define-fun blocks_per_year () Int 5256000)
; emission of the next block: previous emission minus decrease/blocksPerYear, truncated, never below zero
(define-fun mint_for_block ((prev Int) (bpy Int) (dec Int)) Int
  (let ((m (dec_trunc (- (* prev P18) (dec_quo (* dec P18) (* bpy P18)))))) (ite (< m 0) 0 m)))
; share of a percentage r of the emission e, rounded down exactly as mintStaker/mintDevGrants/... compute it
(define-fun mint_share ((e Int) (r Int)) Int (dec_trunc (* (tquo (* r P18) 100) e)))
(declare-const devGrantsAddr Str)
(assert (and (not (is_user devGrantsAddr)) (not (= devGrantsAddr polAddr))))
(assert (forall ((m Str)) (! (not (= devGrantsAddr (moduleAddr m))) :pattern ((moduleAddr m)))))
(define-fun mint_params_ok ((p T_jklmint_Params)) Bool
  (and (>= (T_jklmint_Params_TokensPerBlock p) 0) (>= (T_jklmint_Params_MintDecrease p) 0)
       (>= (T_jklmint_Params_StakerRatio p) 0) (>= (T_jklmint_Params_DevGrantsRatio p) 0) (>= (T_jklmint_Params_StorageProviderRatio p) 0)
       (<= (+ (T_jklmint_Params_StakerRatio p) (T_jklmint_Params_DevGrantsRatio p) (T_jklmint_Params_StorageProviderRatio p)) 100)))
; every recorded emission is non-negative
(define-fun minted_wf ((b (Array Int (Option T_jklmint_MintedBlock)))) Bool
  (forall ((h Int)) (! (=> ((_ is some_T_jklmint_MintedBlock) (select b h)) (>= (T_jklmint_MintedBlock_Minted (val_T_jklmint_MintedBlock (select b h))) 0)) :pattern ((select b h)))))
