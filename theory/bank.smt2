; requires: coins
; bank model: W.bank : address bytes -> denom -> amount
(declare-fun moduleAddr (Str) Str)
(assert (forall ((a Str) (b Str)) (! (=> (= (moduleAddr a) (moduleAddr b)) (= a b)) :pattern ((moduleAddr a) (moduleAddr b)))))
(declare-fun bech32 (Str) Str)
(declare-fun addr_of (Str) Str)
(declare-fun bech32_ok (Str) Bool)
(assert (forall ((a Str)) (! (and (= (addr_of (bech32 a)) a) (bech32_ok (bech32 a))) :pattern ((bech32 a)))))
; NOT assumed: bech32_ok(s) => bech32(addr_of(s)) == s.  Decoding accepts the all-upper-case spelling of an address as
; well (BIP-173), so two different strings name the same account and String() returns only the lower-case one.
; result of moving coins c from a to b
(define-fun bank_moved ((old (Array Str (Array Str Int))) (new (Array Str (Array Str Int))) (from Str) (to Str) (c Coins)) Bool
  (forall ((x Str) (d Str)) (! (= (select (select new x) d)
        (+ (- (select (select old x) d) (ite (= x from) (Coins_amt c d) 0)) (ite (= x to) (Coins_amt c d) 0)))
     :pattern ((select (select new x) d)))))
(define-fun bank_covers ((b (Array Str (Array Str Int))) (a Str) (c Coins)) Bool
  (forall ((d Str)) (! (>= (select (select b a) d) (Coins_amt c d)) :pattern ((Coins_amt c d)))))
(define-fun bank_nonneg ((b (Array Str (Array Str Int)))) Bool
  (forall ((x Str) (d Str)) (! (>= (select (select b x) d) 0) :pattern ((select (select b x) d)))))
; the protocol-owned-liquidity account (types.GetPOLAccount: first 20 bytes of sha256("protocol-owned-liquidity"))
(declare-const polAddr Str)
(define-fun coin1 ((denom Str) (amount Int)) Coins (Coins_lit_add Coins_empty (mk_T_sdk_Coin denom amount)))
; accounts that can sign transactions (A-ANTE/A-BLOCKED: module accounts and derived accounts have no key)
(declare-fun is_user (Str) Bool)
(assert (forall ((a Str) (m Str)) (! (=> (is_user a) (not (= a (moduleAddr m)))) :pattern ((is_user a) (moduleAddr m)))))
(assert (not (is_user polAddr)))
(assert (forall ((m Str)) (! (not (= polAddr (moduleAddr m))) :pattern ((moduleAddr m)))))
(define-fun bank_minted ((old (Array Str (Array Str Int))) (new (Array Str (Array Str Int))) (to Str) (c Coins)) Bool
  (forall ((x Str) (d Str)) (! (= (select (select new x) d) (+ (select (select old x) d) (ite (= x to) (Coins_amt c d) 0))) :pattern ((select (select new x) d)))))
