; requires: kv strings bank
; x/oracle store layout (concrete string mode only): a feed lives under "Feed/value/" ++ name ++ "/"
(define-fun feed_key ((name Str)) Str (str.++ "Feed/value/" name "/"))
