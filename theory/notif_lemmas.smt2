; requires: notif
; proved as lemma x/notifications/keeper.inboxes_are_disjoint (C18) from the definitions alone
(assert (forall ((k Str) (a Str) (b Str)) (! (=> (and (slashfree a) (slashfree b) (in_inbox k a) (in_inbox k b)) (= a b)) :pattern ((in_inbox k a) (in_inbox k b)))))
