; requires: storagepay
; `cutu` is an uninterpreted twin of the defined function `cut` (definitions are macro-expanded by the solvers, so
; quantified facts about them need a symbol that survives as a trigger)
(declare-fun cutu (Int Int) Int)
(assert (forall ((a Int) (r Int)) (! (= (cutu a r) (cut a r)) :pattern ((cutu a r)))))
; facts about `cut`, each discharged as a lemma obligation of its own from the definitions alone
; (x/storage/keeper.cut_is_floor_of_product and x/storage/keeper.cuts_never_exceed_the_amount, property C04)
(assert (forall ((a Int) (r Int)) (! (=> (and (>= a 0) (>= r 0)) (and (>= (cutu a r) 0) (= (cutu a r) (tquo (* a r) P18)))) :pattern ((cutu a r)))))
(assert (forall ((a Int) (r1 Int) (r2 Int) (r3 Int)) (! (=> (and (>= a 0) (>= r1 0) (>= r2 0) (>= r3 0) (<= (+ r1 r2 r3) P18)) (<= (+ (cutu a r1) (cutu a r2) (cutu a r3)) a)) :pattern ((cutu a r1) (cutu a r2) (cutu a r3)))))
