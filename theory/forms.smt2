; requires: files
; attestation / report forms (C14). A stored form is a pure value: the listed providers, which of them have signed,
; and the proof it concerns. In memory a form is a slice of pointers to Attestation objects (heaps ha / hp).
(declare-datatypes ((QForm 0)) (((mk_QForm (qf_prov (Array Int Str)) (qf_done (Array Int Bool)) (qf_n Int) (qf_Prover Str) (qf_Merkle Str) (qf_Owner Str) (qf_Start Int)))))
(declare-datatypes ((Opt_QForm 0)) (((none_QForm) (some_QForm (val_QForm QForm)))))
(declare-fun form_key (Str Str Str Int) Str)
(assert (forall ((p Str) (m Str) (o Str) (s Int) (p2 Str) (m2 Str) (o2 Str) (s2 Int)) (! (=> (= (form_key p m o s) (form_key p2 m2 o2 s2)) (and (= p p2) (= m m2) (= o o2) (= s s2))) :pattern ((form_key p m o s) (form_key p2 m2 o2 s2)))))
; the j-th entry of an in-memory form
(define-fun att_at ((ha (Array Int (Array Int Int))) (hp (Array Int T_storage_Attestation)) (s Slice_Int) (j Int)) T_storage_Attestation (select hp (sget_Slice_Int ha s j)))
; in-memory entries are distinct non-nil objects (protobuf decoding and the request handlers allocate one object per entry)
(define-fun att_ptrs_ok ((ha (Array Int (Array Int Int))) (s Slice_Int)) Bool
  (and (forall ((i Int)) (! (=> (and (<= 0 i) (< i (len_Slice_Int s))) (not (= (sget_Slice_Int ha s i) 0))) :pattern ((sget_Slice_Int ha s i))))
       (forall ((i Int) (j Int)) (! (=> (and (<= 0 i) (< i j) (< j (len_Slice_Int s))) (not (= (sget_Slice_Int ha s i) (sget_Slice_Int ha s j)))) :pattern ((sget_Slice_Int ha s i) (sget_Slice_Int ha s j))))))
; the in-memory entries (ha, hp, s) represent the entries of the pure form q
(define-fun form_entries ((ha (Array Int (Array Int Int))) (hp (Array Int T_storage_Attestation)) (s Slice_Int) (q QForm)) Bool
  (and (= (len_Slice_Int s) (qf_n q))
       (forall ((j Int)) (! (=> (and (<= 0 j) (< j (qf_n q)))
            (and (= (T_storage_Attestation_Provider (select hp (sget_Slice_Int ha s j))) (select (qf_prov q) j))
                 (= (T_storage_Attestation_Complete (select hp (sget_Slice_Int ha s j))) (select (qf_done q) j))))
          :pattern ((sget_Slice_Int ha s j)) :pattern ((select (qf_prov q) j)) :pattern ((select (qf_done q) j))))))
; a well-formed table: every form is stored under the key of its own fields, lists at least no negative number of
; providers, and names each provider once
(define-fun qform_ok ((q QForm)) Bool
  (and (>= (qf_n q) 0)
       (forall ((i Int) (j Int)) (! (=> (and (<= 0 i) (< i j) (< j (qf_n q))) (not (= (select (qf_prov q) i) (select (qf_prov q) j)))) :pattern ((select (qf_prov q) i) (select (qf_prov q) j))))))
(define-fun forms_wf ((t (Array Str (Option QForm)))) Bool
  (forall ((k Str)) (! (=> ((_ is some_QForm) (select t k))
     (and (= k (form_key (qf_Prover (val_QForm (select t k))) (qf_Merkle (val_QForm (select t k))) (qf_Owner (val_QForm (select t k))) (qf_Start (val_QForm (select t k)))))
          (qform_ok (val_QForm (select t k)))))
   :pattern ((select t k)))))
; signatures counted once signer c has signed: entries already complete, plus c's own entry
(declare-fun qcount (QForm Str Int) Int)
(assert (forall ((q QForm) (c Str)) (! (= (qcount q c 0) 0) :pattern ((qcount q c 0)))))
(assert (forall ((q QForm) (c Str) (n Int)) (! (=> (>= n 1) (= (qcount q c n) (+ (qcount q c (- n 1)) (ite (or (select (qf_done q) (- n 1)) (= (select (qf_prov q) (- n 1)) c)) 1 0)))) :pattern ((qcount q c n)))))
; c is named on the form (among the first n entries)
(declare-fun qnamed (QForm Str Int) Bool)
(assert (forall ((q QForm) (c Str) (n Int)) (! (= (qnamed q c n) (exists ((j Int)) (and (<= 0 j) (< j n) (= (select (qf_prov q) j) c)))) :pattern ((qnamed q c n)))))
; the form after c has signed
(define-fun qsigned ((q QForm) (c Str) (r QForm)) Bool
  (and (= (qf_n r) (qf_n q)) (= (qf_Prover r) (qf_Prover q)) (= (qf_Merkle r) (qf_Merkle q)) (= (qf_Owner r) (qf_Owner q)) (= (qf_Start r) (qf_Start q))
       (forall ((j Int)) (! (=> (and (<= 0 j) (< j (qf_n q)))
           (and (= (select (qf_prov r) j) (select (qf_prov q) j))
                (= (select (qf_done r) j) (or (select (qf_done q) j) (= (select (qf_prov q) j) c)))))
         :pattern ((select (qf_prov r) j)) :pattern ((select (qf_done r) j))))))
; accessors for contracts
(define-fun qn ((q QForm)) Int (qf_n q))
(define-fun qprov ((q QForm) (j Int)) Str (select (qf_prov q) j))
(define-fun qdone ((q QForm) (j Int)) Bool (select (qf_done q) j))
(define-fun qProver ((q QForm)) Str (qf_Prover q))
(define-fun qMerkle ((q QForm)) Str (qf_Merkle q))
(define-fun qOwner ((q QForm)) Str (qf_Owner q))
(define-fun qStart ((q QForm)) Int (qf_Start q))
(define-fun att_header ((v T_storage_AttestationForm) (q QForm)) Bool
  (and (= (T_storage_AttestationForm_Prover v) (qf_Prover q)) (= (T_storage_AttestationForm_Merkle v) (qf_Merkle q)) (= (T_storage_AttestationForm_Owner v) (qf_Owner q)) (= (T_storage_AttestationForm_Start v) (qf_Start q))))
(define-fun rep_header ((v T_storage_ReportForm) (q QForm)) Bool
  (and (= (T_storage_ReportForm_Prover v) (qf_Prover q)) (= (T_storage_ReportForm_Merkle v) (qf_Merkle q)) (= (T_storage_ReportForm_Owner v) (qf_Owner q)) (= (T_storage_ReportForm_Start v) (qf_Start q))))
; an account holds proofs: some proof record names it as prover
(declare-fun holds_proofs ((Array Str (Option T_storage_FileProof)) Str) Bool)
(assert (forall ((t (Array Str (Option T_storage_FileProof))) (a Str)) (! (= (holds_proofs t a)
   (exists ((k Str)) (and ((_ is some_T_storage_FileProof) (select t k)) (= (T_storage_FileProof_Prover (val_T_storage_FileProof (select t k))) a)))) :pattern ((holds_proofs t a)))))
