; requires: bank coins dec rnsresolve
; spec functions for storage payments (C04, C07, C12)
; "the price the chain computes": by definition the result of Keeper.GetStorageCost / GetStorageCostKbs for the
; current parameters and oracle price (both constant during one handler execution)
(declare-fun storage_cost (T_storage_Params Int Int) Int)
(declare-fun storage_cost_kbs (T_storage_Params Int Int) Int)
; gauge escrow accounts: types.GetGaugeAccount derives the address from sha256("gauge:"+hex(id)) (A-HASH: no collisions
; with each other, with module accounts, with the POL account or with user accounts)
(declare-fun gaugeAddr (Str) Str)
(declare-fun gauge_id (Int Int Coins) Str)
(assert (forall ((i Str)) (! (and (not (is_user (gaugeAddr i))) (not (= (gaugeAddr i) polAddr))) :pattern ((gaugeAddr i)))))
(assert (forall ((i Str) (m Str)) (! (not (= (gaugeAddr i) (moduleAddr m))) :pattern ((gaugeAddr i) (moduleAddr m)))))
(assert (forall ((i Str) (j Str)) (! (=> (= (gaugeAddr i) (gaugeAddr j)) (= i j)) :pattern ((gaugeAddr i) (gaugeAddr j)))))
(define-fun gb () Int 1000000000)
(define-fun hour_ms () Int 3600000)
; hours of a duration given in milliseconds, exactly as BuyStorage computes them
(define-fun hours_of_ms ((ms Int)) Int (dec_trunc (dec_quo (* ms P18) (* hour_ms P18))))
; amount of a ratio (raw 18-decimal) applied to an integer amount and truncated
(define-fun cut ((amount Int) (ratio Int)) Int (dec_trunc (dec_mul (* amount P18) ratio)))
; prices are never negative for non-negative sizes and durations (PricePerTbPerMonth >= 0, oracle price > 0)
(define-fun storage_cost_nonneg ((p T_storage_Params)) Bool (forall ((g Int) (h Int)) (! (=> (and (>= g 0) (>= h 0)) (>= (storage_cost p g h) 0)) :pattern ((storage_cost p g h)))))
