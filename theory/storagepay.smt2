; requires: bank coins dec rnsresolve
; spec functions for storage payments (C04, C07, C12)
; "the price the chain computes": by definition the result of Keeper.GetStorageCost / GetStorageCostKbs for the
; current parameters and oracle price (both constant during one handler execution)
(declare-fun storage_cost (T_storage_Params Int Int) Int)
(declare-fun storage_cost_kbs (T_storage_Params Int Int) Int)
; gauge escrow accounts: types.GetGaugeAccount derives the address from sha256("gauge:"+hex(id)) (A-HASH: no collisions
; with each other, with module accounts, with the POL account or with user accounts)
(declare-fun gaugeAddr (Str) Str)
(declare-fun gauge_id (Int Int Coins) Str)
(assert (forall ((i Str)) (! (and (not (is_user (gaugeAddr i))) (not (= (gaugeAddr i) polAddr))) :pattern ((gaugeAddr i)))))
(assert (forall ((i Str) (m Str)) (! (not (= (gaugeAddr i) (moduleAddr m))) :pattern ((gaugeAddr i) (moduleAddr m)))))
(assert (forall ((i Str) (j Str)) (! (=> (= (gaugeAddr i) (gaugeAddr j)) (= i j)) :pattern ((gaugeAddr i) (gaugeAddr j)))))
(define-fun gb () Int 1000000000)
(define-fun hour_ms () Int 3600000)
; hours of a duration given in milliseconds, exactly as BuyStorage computes them
(define-fun hours_of_ms ((ms Int)) Int (dec_trunc (dec_quo (* ms P18) (* hour_ms P18))))
; amount of a ratio (raw 18-decimal) applied to an integer amount and truncated
(define-fun cut ((amount Int) (ratio Int)) Int (dec_trunc (dec_mul (* amount P18) ratio)))
; prices are never negative for non-negative sizes and durations (PricePerTbPerMonth >= 0, oracle price > 0)
(define-fun storage_cost_nonneg ((p T_storage_Params)) Bool (forall ((g Int) (h Int)) (! (=> (and (>= g 0) (>= h 0)) (>= (storage_cost p g h) 0)) :pattern ((storage_cost p g h)))))
; C12 invariant: a gauge account never holds more than its record says was deposited; accounts of gauges that have no
; record hold nothing (a gauge account is only ever funded together with the creation of its record)
(define-fun gauges_backed ((bank (Array Str (Array Str Int))) (g (Array Str (Option T_storage_PaymentGauge)))) Bool
  (forall ((i Str) (d Str)) (! (and (>= (select (select bank (gaugeAddr i)) d) 0)
       (<= (select (select bank (gaugeAddr i)) d) (ite ((_ is some_T_storage_PaymentGauge) (select g i)) (Coins_amt (T_storage_PaymentGauge_Coins (val_T_storage_PaymentGauge (select g i))) d) 0)))
     :pattern ((select (select bank (gaugeAddr i)) d)))))
