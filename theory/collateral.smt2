; requires: bank
; C15: the collateral escrow account holds exactly the sum of the recorded collaterals (ghost sum with update equations)
(declare-fun collat_sum ((Array Str (Option T_storage_Collateral))) Int)
(define-fun collat_amt ((c (Option T_storage_Collateral))) Int (ite ((_ is some_T_storage_Collateral) c) (T_storage_Collateral_Amount (val_T_storage_Collateral c)) 0))
(assert (forall ((t (Array Str (Option T_storage_Collateral))) (k Str) (v (Option T_storage_Collateral)))
  (! (= (collat_sum (store t k v)) (+ (- (collat_sum t) (collat_amt (select t k))) (collat_amt v)))
     :pattern ((collat_sum (store t k v))))))
; every record sits under its own address, holds a non-negative amount and belongs to a registered provider
(define-fun collat_wf ((c (Array Str (Option T_storage_Collateral))) (p (Array Str (Option T_storage_Providers)))) Bool
  (forall ((a Str)) (! (=> ((_ is some_T_storage_Collateral) (select c a))
        (and (= (T_storage_Collateral_Address (val_T_storage_Collateral (select c a))) a)
             (>= (T_storage_Collateral_Amount (val_T_storage_Collateral (select c a))) 0)
             ((_ is some_T_storage_Providers) (select p a))))
     :pattern ((select c a)))))
(define-fun collat_backed ((bank (Array Str (Array Str Int))) (c (Array Str (Option T_storage_Collateral)))) Bool
  (= (select (select bank (moduleAddr {str "storage_collateral_name"})) {str "ujkl"}) (collat_sum c)))
; every provider record sits under its own address
(define-fun providers_wf ((p (Array Str (Option T_storage_Providers)))) Bool
  (forall ((a Str)) (! (=> ((_ is some_T_storage_Providers) (select p a)) (= (T_storage_Providers_Address (val_T_storage_Providers (select p a))) a)) :pattern ((select p a)))))
