; requires: storagepay
; payment gauges (C12): linear release. Times are nanoseconds; the code measures both spans in whole microseconds.
(define-fun span_us ((a Int) (b Int)) Int (tquo (- a b) 1000))
; elapsed fraction at time t as the code computes it: 1 - Quo(timeLeft, totalTime) on 18-decimal fixed point
(define-fun gauge_ratio ((start Int) (end Int) (t Int)) Int (- P18 (dec_quo (* (span_us end t) P18) (* (span_us end start) P18))))
; amount released from a deposit a of which bal is still in the gauge account
(define-fun gauge_release ((r Int) (a Int) (bal Int)) Int (dec_trunc (- (dec_mul r (* a P18)) (* (- a bal) P18))))
