; requires: strings
; proof-of-storage verification (abstract string mode)
; mt_accepts(leaf, proof, root): the merkle tree library accepts `proof` for leaf data `leaf` under `root` (uninterpreted, A-DEP)
(declare-fun mt_accepts (Str O_go_merkletree_v2_Proof Str) Bool)
