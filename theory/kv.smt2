; raw key-value store of the module under verification: full key (all prefixes included) -> value bytes
(declare-fun store_prefix (Iface) Str)
;;; Bytes_nil: the nil byte slice returned by KVStore.Get for an absent key
(declare-const Bytes_nil Str)
(assert (not (= Bytes_nil {str ""})))
; stored values are never the nil slice (KVStore.Set panics on nil)
(define-fun kv_wf ((kv (Array Str (Option Str)))) Bool (forall ((k Str)) (! (=> ((_ is some_Str) (select kv k)) (not (= (val_Str (select kv k)) Bytes_nil))) :pattern ((select kv k)))))
